"""Self-test of the explorer core on synthetic trees with a known number of leaves (run by MANIFEST.setup_cmd).
It protects the claim 'exhaustive within the bound': if the enumeration dropped or duplicated executions the counts
below would be wrong."""
import itertools
import sys

sys.path.insert(0, __file__.rsplit("/mc/", 1)[0])
from mc import core  # noqa: E402


def main():
    # 1. full enumeration of a tree with varying branching: sequences of length 3 where point k has k+2 alternatives
    seen = []

    def run(ch):
        seen.append(tuple(ch.choose(k + 2, f"p{k}") for k in range(3)))

    n = core.explore_dfs(run)
    assert n == 2 * 3 * 4 == len(set(seen)) == len(seen), (n, len(set(seen)))
    assert set(seen) == set(itertools.product(range(2), range(3), range(4)))

    # 2. deviation bound: 4 binary deviation points, at most 2 deviations -> C(4,0)+C(4,1)+C(4,2) = 11 executions
    seen = []

    def run2(ch):
        seen.append(tuple(ch.choose(2, "d", dev=True) for _ in range(4)))

    n = core.explore_dfs(run2, max_dev=2)
    assert n == 11 == len(set(seen)), (n, sorted(set(seen)))
    assert all(sum(s) <= 2 for s in seen)

    # 3. data-dependent trees (the number of later points depends on earlier choices) and roots
    seen = []

    def run3(ch):
        a = ch.choose(3, "a")
        out = [a]
        for _ in range(a):
            out.append(ch.choose(2, "b"))
        seen.append(tuple(out))

    n = core.explore_dfs(run3)
    assert n == 1 + 2 + 4 == len(set(seen)), n
    seen = []
    n = core.explore_dfs(run3, roots=[(2,)])
    assert n == 4 and all(s[0] == 2 for s in seen)

    # 4. replay divergence is a hard error
    def run4(ch):
        ch.choose(2, "x")

    try:
        core.explore_dfs(run4, roots=[(5,)])
    except core.HarnessError:
        pass
    else:
        raise AssertionError("out-of-range replayed choice was accepted")
    try:
        core.explore_dfs(run4, roots=[(1, 1)])
    except core.HarnessError:
        pass
    else:
        raise AssertionError("unconsumed prefix was accepted")

    # 5. Result merging keeps the smallest replay per signature and counts occurrences
    a, b = core.Result(), core.Result()
    a.violation("s", "long", dict(x="y" * 50))
    b.violation("s", "short", dict(x="y"))
    a.merge(b)
    assert a.violations["s"]["count"] == 2 and a.violations["s"]["msg"] == "short"
    print("explorer core self-test ok")


if __name__ == "__main__":
    main()
