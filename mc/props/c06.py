"""C06 - component lifecycle: setup once (after construction + injection, before anything else), on_enable /
on_disable bracket every execute.  robot engine; pure log monitors (the loop model is not consulted)."""
import json
import time

from mc import core
from mc import robotdrv as R

PID = "C06"

INJ = "    peer: object\n    thing: int\n"


def layouts(tier):
    c = R.comp
    L = [
        R.layout("two+auto+tia", [c("c0", extra_src=INJ), c("c1", extra_src=INJ)], auto=True, teleop_in_auto=True, p_us=20000),
        R.layout("base-robot+inherit", [c("c0", on="base", extra_src=INJ), c("c1", extra_src=INJ), c("c2", inherit="c0")], auto=False, p_us=15625, robot_base=True),
        R.layout("three-noauto", [c("c2", extra_src=INJ), c("c0", extra_src=INJ), c("c1", extra_src=INJ)], auto=False, teleop_in_auto=True, p_us=20000),
        R.layout("one+auto", [c("c0", extra_src=INJ)], auto=True, p_us=5000),
        R.layout("same-class-pair", [c("c0", extra_src=INJ), c("c1", extra_src=INJ), c("c2", same_class_as="c0")], auto=True, p_us=20000),
        # a component without setup / on_enable / on_disable declared between two that have them
        R.layout("middle-without-hooks", [c("c0", extra_src=INJ), c("c1", hooks=False, extra_src=INJ), c("c2", extra_src=INJ)], auto=True, teleop_in_auto=False, p_us=20000),
    ]
    if tier == "thorough":
        import itertools

        for i, perm in enumerate(itertools.permutations(["c0", "c1", "c2"])):
            L.append(R.layout(f"perm{i}", [c(n, extra_src=INJ, on=("base" if n == "c2" else "derived")) for n in perm], auto=(i % 2 == 0), teleop_in_auto=(i % 3 == 0), robot_base=True))
    return L


class Hooks:
    """createObjects provides the injectables; setup() checks that every component already has every
    injected attribute (injection finished for all before the first setup)."""

    def __init__(self, lay):
        self.lay = lay
        self.robot = None
        self.problems = []

    def __call__(self, site, obj, rec, n):
        if site == "createObjects":
            self.robot = obj
            obj.thing = 7
            obj.peer = object()
        elif site.endswith(".setup"):
            for name in R.comp_order(self.lay):
                comp = getattr(self.robot, name, None)
                if comp is None:
                    self.problems.append(f"{site}: component {name} does not exist yet")
                    continue
                for c in self.lay["comps"]:
                    if c["name"] == name and (c["extra_src"] or c["inherit"]):
                        if getattr(comp, "thing", None) != 7 or getattr(comp, "peer", None) is not self.robot.peer:
                            self.problems.append(f"{site}: injection into {name} not done yet (thing={getattr(comp, 'thing', '<missing>')!r})")
                if not hasattr(comp, "logger"):
                    self.problems.append(f"{site}: {name} has no logger yet")


def monitor(lay, h, life, hooks):
    out = []
    comps = R.comp_order(lay)
    hooked = [n for n in comps if any((c["name"] == n and (c["hooks"] or c["inherit"])) for c in lay["comps"])]
    log = life.log
    sites = [r[0] for r in log]
    for p in hooks.problems:
        out.append(("setup-before-injection-complete", p))
    # setup: exactly once, after createObjects, before any other callback
    first_other = next((i for i, s in enumerate(sites) if s != "createObjects" and not s.endswith(".setup")), len(sites))
    for n in hooked:
        idx = [i for i, s in enumerate(sites) if s == n + ".setup"]
        if len(idx) != 1:
            out.append(("setup-count", f"{n}.setup called {len(idx)} times"))
        elif idx[0] > first_other:
            out.append(("setup-late", f"{n}.setup ran after {sites[first_other]}"))
        elif "createObjects" in sites and idx[0] < sites.index("createObjects"):
            out.append(("setup-early", f"{n}.setup ran before createObjects"))
    setups = [s[:-6] for s in sites if s.endswith(".setup")]
    if setups != hooked[: len(setups)] and sorted(setups) == sorted(hooked):
        out.append(("setup-order", f"setup order {setups}, declaration order {hooked}"))
    # transitions
    enabled = {n: False for n in comps}
    prev = None
    for k, st in enumerate(life.steps):
        sl = sites[st["start"]:st["end"]]
        m = st["mode"]
        if k == 0:
            sl = [s for s in sl if s != "createObjects" and not s.endswith(".setup")]
        if m != prev:
            pos = 0
            if prev in ("a", "t"):
                # every on_disable before any callback belonging to the next mode
                dis = []
                while pos < len(sl) and (sl[pos].endswith(".on_disable")):
                    if sl[pos] != "mode.on_disable":
                        dis.append(sl[pos][:-11])
                    pos += 1
                if dis[: len(hooked)] != hooked:
                    out.append((f"on_disable-on-leave:{prev}{m}", f"history {h!r} step {k}: leaving {prev} for {m}: on_disable of {dis} before the first callback of the next mode ({sl[pos] if pos < len(sl) else None}), expected {hooked}"))
                rest = sl[len([1 for _ in range(0)]):]
                # for 'd' the on_disable block is repeated on entry: consumed above as well (same suffix)
            if m == "d":
                upto = sl.index("disabledInit") if "disabledInit" in sl else len(sl)
                dis = [s[:-11] for s in sl[:upto] if s.endswith(".on_disable") and s != "mode.on_disable"]
                need = hooked * (2 if prev in ("a", "t") else 1)
                if dis != need:
                    out.append((f"on_disable-on-enter-disabled:{prev}", f"history {h!r} step {k}: entering disabled from {prev}: on_disable calls {dis} before disabledInit, expected {need}"))
            if m in ("a", "t"):
                init = "autonomousInit" if m == "a" else "teleopInit"
                if init not in sl:
                    out.append((f"init-missing:{m}", f"history {h!r} step {k}: {init} not called"))
                else:
                    upto = sl.index(init)
                    en = [s[:-10] for s in sl[:upto] if s.endswith(".on_enable") and s != "mode.on_enable"]
                    if en != hooked:
                        out.append((f"on_enable-before-init:{m}", f"history {h!r} step {k}: on_enable calls before {init}: {en}, expected {hooked}"))
                    bad = [s for s in sl[:upto] if s.endswith(".execute") or s == "mode.on_enable" or s == "mode.on_iteration"]
                    if bad:
                        out.append((f"early-callback:{m}", f"history {h!r} step {k}: {bad} before {init}"))
                    if "mode.on_enable" in sl and any(s.endswith(".execute") for s in sl[: sl.index("mode.on_enable")]):
                        out.append((f"execute-before-mode-enable", f"history {h!r} step {k}"))
            prev = m
        # bracket: execute only while enabled
        for s in sites[st["start"]:st["end"]]:
            if s.endswith(".on_enable") and s != "mode.on_enable":
                enabled[s[:-10]] = True
            elif s.endswith(".on_disable") and s != "mode.on_disable":
                enabled[s[:-11]] = False
            elif s.endswith(".execute"):
                n = s[:-8]
                if n in hooked and not enabled[n]:
                    out.append(("execute-outside-bracket", f"history {h!r} step {k}: {s} ran while the component was not enabled (after on_disable / before on_enable)"))
                if m in ("d", "x"):
                    out.append((f"execute-in-mode:{m}", f"history {h!r} step {k}: {s} ran in mode {m}"))
    if life.end and life.end[0] == "exit" and prev in ("a", "t"):
        if any(enabled[n] for n in hooked):
            out.append((f"on_disable-on-shutdown:{prev}", f"history {h!r}: endCompetition in mode {prev} left {[n for n in hooked if enabled[n]]} enabled"))
    if not life.end or life.end[0] != "exit":
        out.append(("robot-did-not-exit-cleanly", f"history {h!r}: end {life.end!r}"))
    return out


def work(item):
    R.install()
    lay = item["layout"]
    res = core.Result()
    for h in item["histories"]:
        hooks = Hooks(lay)
        life = R.run_life(lay, h, hooks=[hooks])
        res.executions += 1
        res.transitions += len(life.steps)
        res.checks += len(life.steps) + 1
        for sig, msg in monitor(lay, h, life, hooks):
            res.violation(sig, f"layout {lay['name']}: {msg}", dict(engine="robot", layout=lay, history=h, source=R.robot_source(lay)))
        res.outcome(core.stable_hash([lay["name"], [r[0] for r in life.log]]))
        R.visit_history(res, lay, h)
        if not res.samples and len(h) >= 3:
            res.sample(dict(layout=lay["name"], history=h, log=[r[0] for r in life.log]))
    return res


def main(tier, seed):
    t0 = time.time()
    depth = 5 if tier == "quick" else 6
    hs = R.histories(depth)
    # plus the disabled words that keep the autonomous / test selection bit set (to 4 words)
    hs = hs + [h for h in R.histories(4, alphabet="datxef", boot="datxef") if ("e" in h or "f" in h)]
    # plus long histories over every two-word alphabet (repeated periods, long alternations)
    seen_h = set(hs)
    hs = hs + [h for h in R.long_histories(8 if tier == "quick" else 9) if h not in seen_h]
    # ... and, for the first two layouts only, every history up to 6 (thorough 7) words over each three-word alphabet
    seen_h = set(hs)
    hs3 = [h for h in R.long_histories(6 if tier == "quick" else 7, pairs=("dtx", "dat", "dax", "atx")) if h not in seen_h]
    items = []
    L = layouts(tier)
    short = R.histories(4)
    for li, lay in enumerate(L):
        hh = (hs + (hs3 if li < 2 else [])) if li < 5 else short  # sixth layout and generated permutation layouts: four-word histories to depth 4
        for i in range(0, len(hh), 40):
            items.append(dict(layout=lay, histories=hh[i:i + 40], seed=seed))
    res = core.Result()
    for d in core.parallel("mc.props.c06", "work", items, seed=seed):
        res.merge(d)
    res.bounds.update(three_word_history_depth=6 if tier == "quick" else 7, two_word_history_depth=8 if tier == "quick" else 9, history_depth=depth, layouts=len(L), histories_per_layout=len(hs))
    rule = (
        "every driver-station history up to the stated depth (boot word + one word per iteration, including direct switches between "
        "enabled modes, then endCompetition) for every layout, run through the real startCompetition(); lifecycle monitors on the callback log: "
        "setup exactly once / after createObjects, construction and injection of every component / before any other callback; on_enable of all "
        "components in declaration order before the init hook, the mode's on_enable and any execute; on_disable of all before any callback of "
        "the next mode and again on entering disabled; execute only inside the bracket. states = (layout, previous mode, mode) combinations; "
        "transitions = loop iterations; distinct outcome = distinct callback log."
    )
    return core.finish(PID, tier, seed, res, time.time() - t0, rule, ["components without on_enable/on_disable/setup methods are simply skipped by the framework (layout 'nohooks' in C05)"])


def replay(path):
    R.install()
    r = json.load(open(path))["replay"]
    lay, h = r["layout"], r["history"]
    hooks = Hooks(lay)
    life = R.run_life(lay, h, hooks=[hooks])
    for k, s in enumerate(life.steps):
        print(k, s["mode"], [x[0] for x in life.log[s["start"]:s["end"]]])
    out = monitor(lay, h, life, hooks)
    for o in out:
        print("MONITOR:", o)
    return 1 if out else 0
