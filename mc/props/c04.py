"""C04 - see DESIGN.md section 4 (sm engine).  The exploration is shared by C01-C04; this check reports the
disagreements and clause-monitor findings that speak about C04."""
from mc import sm_engine as E

PID = "C04"


def params(tier):
    if tier == "quick":
        return dict(shapes=E.curated_shapes(), nops=3, maxdev=1, bfs_depth=4, probe_every=7, timing_depth=24)
    fam = E.family_shapes()
    return dict(shapes=E.curated_shapes() + fam, nops=4, maxdev=2, bfs_depth=8, probe_every=11, timing_depth=30, light_names=[s["name"] for s in fam], light_nops=3, light_bfs=3, light_timing=8)


def main(tier, seed):
    return E.run_check(PID, tier, seed, **params(tier))


def replay(path):
    return E.replay(path)
