"""C13 - AutonomousStateMachine runs once per enable and never loops (sm engine, auto shapes)."""
import copy

from mc import sm_engine as E

PID = "C13"


def auto_shapes(shapes):
    out = []
    for s in shapes:
        a = copy.deepcopy(s)
        a["auto"] = True
        a["name"] = "auto-" + s["name"]
        out.append(a)
    return out


def main(tier, seed):
    if tier == "quick":
        return E.run_check(PID, tier, seed, shapes=auto_shapes(E.curated_shapes()), nops=4, maxdev=1, bfs_depth=6, probe_every=0, timing_depth=24)
    fam = auto_shapes(E.family_shapes())
    return E.run_check(PID, tier, seed, shapes=auto_shapes(E.curated_shapes()) + fam, nops=5, maxdev=1, bfs_depth=8, probe_every=0, timing_depth=30, light_names=[s["name"] for s in fam], light_nops=4, light_bfs=4, light_timing=8)


def replay(path):
    return E.replay(path)
