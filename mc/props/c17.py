"""C17 - Sharp IR distance readings are bounded, monotone and invert the sim model.  `inputs` engine:
exhaustive enumeration of the finite input domain the hardware can produce (all 4096 ADC codes; thorough: a 1/65536 V
grid), boundary doubles, and short setDistance / external-voltage histories on the simulation helpers.  DESIGN.md 4."""
import itertools
import json
import math
import time

from mc import core

PID = "C17"

SENSORS = [
    ("SharpIR2Y0A02", "SharpIR2Y0A02Sim", 62.28, -1.092, 22.5, 145.0),
    ("SharpIR2Y0A21", "SharpIR2Y0A21Sim", 26.449, -1.226, 10.0, 80.0),
    ("SharpIR2Y0A41", "SharpIR2Y0A41Sim", 12.84, -0.9824, 4.5, 35.0),
]


def setup():
    core.bind_repo()
    import hal.simulation as hs
    from wpilib.simulation import AnalogInputSim
    from robotpy_ext.common_drivers import distance_sensors as ds
    from robotpy_ext.common_drivers import distance_sensors_sim as dss

    hs.resetGlobalHandles()
    hs.resetAllSimData()
    out = []
    for i, (cn, sn, k, e, lo, hi) in enumerate(SENSORS):
        sensor = getattr(ds, cn)(i)
        raw = AnalogInputSim(sensor.distance)
        out.append((cn, sensor, raw, getattr(dss, sn), k, e, lo, hi))
    return out


def boundary_voltages(k, e, lo, hi):
    v_hi = (hi / k) ** (1 / e)  # voltage at which the far limit is reached
    v_lo = (lo / k) ** (1 / e)
    vs = [0.0, -0.0, 5e-324, 1e-5, math.nextafter(1e-5, 0), math.nextafter(1e-5, 1), 5.0, math.nextafter(5.0, 0), math.nextafter(5.0, 10), 1e308, -1e308, -1.0, -5e-324, float("inf"), float("-inf"), 1e-300, 1e300]
    for v in (v_hi, v_lo):
        x = v
        for _ in range(3):
            x = math.nextafter(x, 0)
            vs.append(x)
        x = v
        for _ in range(3):
            x = math.nextafter(x, 10)
            vs.append(x)
        vs.append(v)
    return vs


def check_reading(name, v, d, k, e, lo, hi, res, rp):
    res.checks += 1
    if not isinstance(d, float) or not math.isfinite(d):
        res.violation(f"not-finite:{name}", f"{name}: voltage {v!r} -> {d!r}", rp)
        return False
    if d < lo or d > hi:
        res.violation(f"out-of-range:{name}", f"{name}: voltage {v!r} -> {d!r} outside [{lo}, {hi}]", rp)
        return False
    if v > 0 and math.isfinite(v):
        try:
            law = k * v ** e
        except OverflowError:
            law = float('inf')
        if lo < law < hi and abs(d - law) > 1e-12 * law:
            res.violation(f"power-law:{name}", f"{name}: voltage {v!r} -> {d!r}, datasheet law gives {law!r}", rp)
            return False
    return True


def sweep(name, sensor, raw, k, e, lo, hi, voltages, res, label):
    prev_v = prev_d = None
    for v in voltages:
        raw.setVoltage(v)
        res.executions += 1
        rp = dict(engine="inputs", sensor=name, voltage=repr(v), kind="voltage")
        try:
            d = sensor.getDistance()
        except Exception as e:  # noqa
            res.violation(f"raises:{name}", f"{name}: voltage {v!r} -> {type(e).__name__}: {e}", rp)
            return
        if not check_reading(name, v, d, k, e, lo, hi, res, rp):
            return
        if prev_v is not None and v > prev_v and d > prev_d:
            res.violation(f"not-monotone:{name}", f"{name}: reading rises from {prev_d!r} at {prev_v!r} V to {d!r} at {v!r} V", rp)
            return
        prev_v, prev_d = v, d
        if d in (lo, hi):
            res.outcome(f"{name}:{d}")
        else:
            res.outcome(f"{name}:mid:{int(d)}")


def sim_histories(name, sensor, raw, simcls, k, e, lo, hi, res, tier):
    mid = (lo + hi) / 2
    ops = [("d", 0), ("d", lo), ("d", mid), ("d", 200.0), ("d", -3.0), ("d", hi), ("v", 1.0), ("v", 0.3)]
    depth = 3 if tier == "quick" else 4
    for ln in range(1, depth + 1):
        for seq in itertools.product(ops, repeat=ln):
            if seq[-1][0] != "d":
                continue
            raw.setVoltage(0.0)
            sim = simcls(sensor)
            res.executions += 1
            res.transitions += ln
            for kind, x in seq:
                if kind == "v":
                    raw.setVoltage(x)
                    continue
                sim.setDistance(x)
                got = sensor.getDistance()
                want = max(min(x, hi), lo)
                res.checks += 1
                rp = dict(engine="inputs", sensor=name, kind="sim-history", history=[list(o) for o in seq])
                if not (abs(got - want) <= 1e-9 * want):
                    first = "first-call" if seq.index((kind, x)) == 0 else "later-call"
                    res.violation(f"sim-inverse:{name}:{first}", f"{name}: after {list(seq)} setDistance({x}) the sensor reads {got!r}, expected {want!r}", rp)
                    break
                if sim.getDistance() != x:
                    res.violation(f"sim-getDistance:{name}", f"{name}: helper.getDistance() = {sim.getDistance()!r} after setDistance({x})", rp)
                    break
            else:
                # the analog input is then driven directly (another simulation writer): the helper still reports the distance that was set
                x = seq[-1][1]
                for v in (1.0, 0.3):
                    raw.setVoltage(v)
                    res.checks += 1
                    if sim.getDistance() != x:
                        res.violation(f"sim-getDistance:{name}:after-external-voltage", f"{name}: after {list(seq)} and an external voltage {v} helper.getDistance() = {sim.getDistance()!r}, the distance set was {x}", dict(engine="inputs", sensor=name, kind="sim-history", history=[list(o) for o in seq] + [["v", v]]))
                        break
    # grid of distances on a fresh helper each
    n = 4001 if tier == "quick" else 40001
    for i in range(n):
        d = -10.0 + 210.0 * i / (n - 1)
        sim = simcls(sensor)
        sim.setDistance(d)
        got = sensor.getDistance()
        want = max(min(d, hi), lo)
        res.executions += 1
        res.checks += 1
        if not (abs(got - want) <= 1e-9 * want) or sim.getDistance() != d:
            res.violation(f"sim-inverse:{name}:grid", f"{name}: setDistance({d}) -> sensor {got!r} (expected {want!r}), helper {sim.getDistance()!r}", dict(engine="inputs", sensor=name, kind="sim-grid", distance=d))
            break


def main(tier, seed):
    t0 = time.time()
    res = core.Result()
    rigs = setup()
    for name, sensor, raw, simcls, k, e, lo, hi in rigs:
        codes = [c * 5.0 / 4096 for c in range(4096)]
        sweep(name, sensor, raw, k, e, lo, hi, codes, res, "adc")
        den = 65536 if tier == "quick" else 1048576
        sweep(name, sensor, raw, k, e, lo, hi, (i / den for i in range(0, 5 * den + 1)), res, "fine")
        bv = sorted(set(boundary_voltages(k, e, lo, hi)), key=lambda x: (x,))
        sweep(name, sensor, raw, k, e, lo, hi, bv, res, "boundary")
        sim_histories(name, sensor, raw, simcls, k, e, lo, hi, res, tier)
    res.states = res.executions
    res.transitions = max(res.transitions, res.executions)
    res.sample(dict(sensor="SharpIR2Y0A21", voltage=1.0, expected=26.449))
    res.sample(dict(sensor="SharpIR2Y0A02", sim_history=[["d", 0], ["v", 1.0], ["d", 0]], expected_reading=22.5))
    res.bounds.update(adc_codes=4096, fine_grid="1/65536 V" if tier == "quick" else "1/1048576 V", boundary_doubles=len(boundary_voltages(1, -1, 1, 2)), sim_history_depth=3 if tier == "quick" else 4)
    rule = (
        "per sensor model: every voltage the 12-bit 0-5 V converter can produce (all 4096 codes, ascending) and every multiple of 1/65536 V (thorough: 1/1048576 V) in [0, 5], a boundary "
        "alphabet of doubles (+-0, denormal, 1e-5 and neighbours, the range-edge voltages and their 3 neighbours each side, 5.0, huge, negative, +-inf); oracle: "
        "finite, inside the documented range, non-increasing in the voltage, equal to the datasheet power law strictly inside the range (rel 1e-12). Simulation "
        "helper: every setDistance / external-voltage history up to the stated length on a fresh helper (reading == clamp(d), getDistance() == d) and a distance grid "
        "from -10 to 200 cm. states = distinct inputs evaluated."
    )
    return core.finish(PID, tier, seed, res, time.time() - t0, rule, ["'every other finite double' is covered by the boundary alphabet and the grids, not enumerated; NaN is outside the quantifier", "AnalogInputSim passes the voltage through unquantised"])


def replay(path):
    r = json.load(open(path))["replay"]
    res = core.Result()
    rigs = setup()
    for name, sensor, raw, simcls, k, e, lo, hi in rigs:
        if name != r["sensor"]:
            continue
        if r["kind"] == "voltage":
            v = float(r["voltage"])
            raw.setVoltage(v)
            d = sensor.getDistance()
            print(name, v, "->", d)
            check_reading(name, v, d, k, e, lo, hi, res, r)
        else:
            sim_histories(name, sensor, raw, simcls, k, e, lo, hi, res, "quick")
    for k_, v_ in res.violations.items():
        print(k_, v_["msg"])
    return 1 if res.violations else 0
