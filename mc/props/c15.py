"""C15 - StatefulAutonomous runs each state for its duration, in every autonomous period.
`sa` engine: bounded exhaustive exploration (prefix-replay DFS) of generated StatefulAutonomous subclasses against
a reference model that is history independent across periods by construction.  DESIGN.md section 4."""
import json
import time
from fractions import Fraction as F

from mc import core, env

PID = "C15"
LONG = "long"


def S(name, dur=None, next=None, first=False):
    return dict(name=name, dur=dur, next=next, first=first)


def shapes():
    return [
        dict(name="chain2", states=[S("a", 2, "b", True), S("b", 2)]),
        dict(name="loop2", states=[S("a", 2, "b", True), S("b", 1, "a")]),
        dict(name="untimed-first", states=[S("a", None, None, True), S("b", 2, "a")]),
        dict(name="single", states=[S("a", 2, None, True)]),
        dict(name="zero", states=[S("a", 0, "b", True), S("b", 0)]),
        dict(name="branch3", states=[S("a", None, None, True), S("b", 1, "c"), S("c", 2)]),
        dict(name="selfloop", states=[S("a", 1, "a", True), S("z", None)]),
    ]


def class_source(sh):
    src = "class M(StatefulAutonomous):\n    MODE_NAME = _mode_name\n    def initialize(self):\n        self.register_sd_var('knob', 1.5)\n"
    for s in sh["states"]:
        args = []
        if s["dur"] is not None:
            args.append(f"duration={float(F(s['dur'], 64))!r}")
            if s["next"]:
                args.append(f"next_state={s['next']!r}")
        if s["first"]:
            args.append("first=True")
        deco = ("timed_state" if s["dur"] is not None else "state") + (f"({', '.join(args)})" if args else "")
        src += f"    @{deco}\n    def {s['name']}(self, tm, state_tm, initial_call):\n        _ctx.on_call(self, {s['name']!r}, tm, state_tm, initial_call)\n"
    return src


class Model:
    def __init__(self, sh):
        self.by = {s["name"]: s for s in sh["states"]}
        self.first = next(s["name"] for s in sh["states"] if s["first"])
        self.dash = {s["name"]: F(s["dur"], 64) for s in sh["states"] if s["dur"] is not None}
        self.knob_dash = F(3, 2)
        self.dur = {}
        self.knob = None
        self.cur = None
        self.fresh = False
        self.entry = None
        self.exp = None
        self.events = []

    def on_enable(self):
        self.dur = dict(self.dash)  # durations are read from the dashboard at on_enable
        self.knob = self.knob_dash
        self.cur = self.first
        self.fresh = True

    def on_iteration(self, tm, act):
        start = tm
        if self.cur is not None and not self.fresh and self.exp is not None and self.exp < tm:
            start = self.exp
            self.cur = self.by[self.cur]["next"]
            self.fresh = True
        if self.cur is None:
            return
        initial = self.fresh
        if initial:
            self.fresh = False
            self.entry = start
            d = self.dur.get(self.cur)
            self.exp = start + d if d is not None else None
        self.events.append((self.cur, tm, tm - self.entry, initial))
        a = act()
        if a[0] == "ns":
            self.cur = a[1]
            self.fresh = True
        elif a[0] == "done":
            self.cur = None


class Ctx:
    def __init__(self, ch, sh, maxdev):
        self.ch = ch
        self.events = []
        self.acts = []
        self.dev = 0
        self.maxdev = maxdev
        self.menu = [("none",)] + [("ns", s["name"]) for s in sh["states"]] + [("done",)]

    def on_call(self, sm, nm, tm, state_tm, initial):
        self.events.append((nm, F(tm), F(state_tm), initial, F(getattr(sm, "knob", -1))))
        menu = self.menu if self.dev < self.maxdev else self.menu[:1]
        c = self.ch.choose(len(menu), "act@" + nm, dev=True)
        a = menu[c]
        if a[0] != "none":
            self.dev += 1
        self.acts.append(a)
        if a[0] == "ns":
            sm.next_state(a[1])
        elif a[0] == "done":
            sm.done()


def op_menu(sh, started):
    if not started:
        return [("on_enable", "zero")]
    timed = [s["name"] for s in sh["states"] if s["dur"] is not None]
    m = [("iter", 1), ("iter", 2), ("iter", 3), ("iter", LONG), ("on_enable", "zero"), ("on_enable", "cont"), ("on_disable",), ("knob",)]
    m += [("setdur", n) for n in timed]
    return m


def run_execution(sh, ch, nops, maxdev, opset=None, visit=None):
    from robotpy_ext.autonomous.stateful_autonomous import StatefulAutonomous, state, timed_state

    env.nt_maybe_reset(2000)
    ctx = Ctx(ch, sh, maxdev)
    mode_name = env.fresh_name("sa")
    g = dict(StatefulAutonomous=StatefulAutonomous, state=state, timed_state=timed_state, _ctx=ctx, _mode_name=mode_name)
    exec(class_source(sh), g)
    inst = g["M"]()
    sd = env.nt().getTable("SmartDashboard")
    model = Model(sh)
    lt = sum((s["dur"] or 0) for s in sh["states"]) + 2
    tm = F(0)
    started = False
    trace = []
    err = None
    for k in range(nops):
        menu = op_menu(sh, started)
        if opset is not None and started:
            menu = [o for o in menu if list(o) in opset or tuple(o) in opset]
        op = menu[ch.choose(len(menu), "op")]
        ctx.events = []
        ctx.acts = []
        model.events = []
        crashed = None
        try:
            if op[0] == "on_enable":
                if op[1] == "zero":
                    tm = F(0)
                inst.on_enable()
                model.on_enable()
                started = True
            elif op[0] == "iter":
                tm = tm + F(lt if op[1] == LONG else op[1], 64)
                inst.on_iteration(float(tm))
                acts = iter(list(ctx.acts))
                model.on_iteration(tm, lambda: next(acts, ("none",)))
            elif op[0] == "on_disable":
                inst.on_disable()
            elif op[0] == "knob":
                model.knob_dash = F(5, 2) if model.knob_dash == F(3, 2) else F(3, 2)
                sd.putNumber(f"{mode_name}\\knob", float(model.knob_dash))
            elif op[0] == "setdur":
                s = op[1]
                orig = F(model.by[s]["dur"], 64)
                model.dash[s] = (F(3, 64) if orig != F(3, 64) else F(1, 64)) if model.dash[s] == orig else orig
                sd.putNumber(f"{mode_name}\\{s}_duration", float(model.dash[s]))
        except core.HarnessError:
            raise
        except Exception as e:  # noqa
            crashed = e
        if visit is not None:
            visit(sh["name"], model.cur, model.fresh, str(model.exp - tm) if model.exp is not None and model.cur else None, sorted((k, str(v)) for k, v in model.dur.items()), str(model.knob))
        step = dict(op=list(op), tm=str(tm), real=[[e[0], str(e[1]), str(e[2]), e[3], str(e[4])] for e in ctx.events], model=[[e[0], str(e[1]), str(e[2]), e[3]] for e in model.events], acts=[list(a) for a in ctx.acts])
        trace.append(step)
        if crashed is not None:
            step["crash"] = repr(crashed)
            err = ("crash", f"{type(crashed).__name__}: {crashed}")
            break
        r, m = ctx.events, model.events
        if len(r) != len(m):
            kind = "state-skipped-or-not-run" if len(r) < len(m) else "ran-after-end"
            err = (kind, f"ran {[e[0] for e in r]}, model {[e[0] for e in m]}")
        else:
            for a, b in zip(r, m):
                if a[0] != b[0]:
                    err = ("wrong-state", f"ran {a[0]}, model {b[0]}")
                elif a[3] != b[3]:
                    err = ("initial_call", f"{a[0]}: initial_call={a[3]}, model {b[3]}")
                elif a[2] != b[2]:
                    err = ("state_tm", f"{a[0]}: state_tm={a[2]}, model {b[2]}")
                elif a[2] < 0:
                    err = ("state_tm-negative", f"{a[0]}: state_tm={a[2]}")
                elif a[1] != b[1]:
                    err = ("tm", f"{a[0]}: tm={a[1]}, model {b[1]}")
                elif a[4] != model.knob:
                    err = ("registered-variable", f"{a[0]}: self.knob={a[4]}, dashboard value at on_enable {model.knob}")
                if err:
                    break
        if err:
            break
    return trace, err


def fmt(trace):
    return "\n".join(f"  {i}: {s['op']} tm={s['tm']} acts={s['acts']}\n       real : {s['real']}{' CRASH ' + s['crash'] if 'crash' in s else ''}\n       model: {s['model']}" for i, s in enumerate(trace))


def work(item):
    core.bind_repo()
    sh = item["shape"]
    res = core.Result()
    nops, maxdev = item["nops"], item["maxdev"]
    count = [0]

    opset = item.get("opset")

    def run(ch):
        trace, err = run_execution(sh, ch, nops, maxdev, opset, visit=res.visit)
        res.executions += 1
        res.checks += len(trace)
        res.transitions += len(trace)
        if err:
            periods = sum(1 for s in trace if s["op"][0] == "on_enable")
            sig = f"{err[0]}:{'first-period' if periods <= 1 else 'later-period'}"
            res.violation(sig, f"shape {sh['name']} step {len(trace)-1} {trace[-1]['op']}: {err[1]}\n" + fmt(trace), dict(engine="sa", shape=sh, choices=list(ch.choices), nops=nops, maxdev=maxdev, opset=opset, trace=trace, source=class_source(sh)))
        res.outcome(core.stable_hash([[s["op"], s["real"]] for s in trace]))
        count[0] += 1
        if count[0] % 1999 == item["seed"] % 1999:
            t2, e2 = run_execution(sh, core.Chooser(ch.choices), nops, maxdev, opset)
            if [s["real"] for s in t2] != [s["real"] for s in trace]:
                raise core.HarnessError(f"non-deterministic replay {sh['name']} {ch.choices}")
            res.determinism_reruns += 1
        if not res.samples and len(ch.choices) > nops + 1:
            res.sample(dict(shape=sh["name"], source=class_source(sh), trace=trace))

    core.explore_dfs(run, max_dev=maxdev, roots=item["roots"])
    return res


def main(tier, seed):
    t0 = time.time()
    nops, maxdev = (5, 1) if tier == "quick" else (6, 2)
    items = []
    for sh in shapes():
        n2 = len(op_menu(sh, True))
        for r in range(n2):
            for r2 in range(n2):
                items.append(dict(shape=sh, nops=nops, maxdev=maxdev, roots=[(0, r, r2)] if r < 4 else [(0, r, r2)], seed=seed))
    # roots (0, r, r2) with r an 'iter' op contain an in-state choice point between r and r2: enumerate properly
    items = []
    for sh in shapes():
        n2 = len(op_menu(sh, True))
        for r in range(n2):
            items.append(dict(shape=sh, nops=nops, maxdev=maxdev, roots=[(0, r)], seed=seed))
    # dashboard pass: deeper, restricted alphabet (several periods with dashboard edits in between, passive states)
    dash_n = 8 if tier == "quick" else 10
    for sh in shapes():
        if sh["name"] not in ("chain2", "single", "loop2", "untimed-first"):
            continue
        timed = [st["name"] for st in sh["states"] if st["dur"] is not None]
        opset = [["iter", 1], ["iter", 2], ["on_enable", "zero"], ["knob"], ["setdur", timed[0]]]
        for r in range(len(opset)):
            for r2 in range(len(opset)):
                items.append(dict(shape=sh, nops=dash_n, maxdev=0, roots=[(0, r, r2)] if r > 1 else [(0, r, 0, r2)], seed=seed, opset=opset))
    res = core.Result()
    for d in core.parallel("mc.props.c15", "work", items, seed=seed):
        res.merge(d)
    res.bounds.update(dashboard_pass_ops=dash_n, ops=nops, deviation_bound=maxdev, shapes=[s["name"] for s in shapes()], tick="1/64 s", tm_steps=[1, 2, 3, "long"])
    rule = (
        "for each generated StatefulAutonomous subclass (chains, loops, branches, self loop, zero durations; fresh class per execution): every "
        "sequence of `ops` operations starting with on_enable from {on_iteration after tm += 1/2/3/long ticks, on_enable with tm restarted at 0, "
        "on_enable with tm continuing, on_disable, dashboard edit of a state duration, dashboard edit of a registered variable} with at most "
        "`deviation_bound` non-trivial in-state actions (next_state to any state incl. itself, done), executed on the real class and on a reference "
        "model whose periods are independent by construction (prefix-replay DFS). Compared per iteration: which state ran, tm, state_tm, initial_call, "
        "registered variable value. states = distinct reference-model states (shape, current state, fresh, time to expiry, durations, registered variable) visited. A second, deeper pass (`dashboard_pass_ops` operations, passive states) restricts the alphabet to on_enable / on_iteration / "
        "dashboard edits so that edits between several autonomous periods are covered."
    )
    return core.finish(PID, tier, seed, res, time.time() - t0, rule, ["tm values are multiples of 1/64 s passed explicitly to on_iteration (exact floats)", "on_iteration before the first on_enable is outside the alphabet (documented ValueError)"])


def replay(path):
    core.bind_repo()
    r = json.load(open(path))["replay"]
    trace, err = run_execution(r["shape"], core.Chooser(r["choices"]), r["nops"], r["maxdev"], r.get("opset"))
    print(class_source(r["shape"]))
    print(fmt(trace))
    print("DISAGREEMENT:" if err else "ok", err or "")
    return 1 if err else 0
