"""C18 - unit conversion is consistent and linear sensors report exact scaled values.  `inputs` engine:
exhaustive enumeration of unit triples (built-in units and generated user-defined unit chains), value alphabets,
sensor readings on grids, and short calibrate / voltage histories of the pressure sensor.  DESIGN.md section 4."""
import itertools
import json
import math
import time

from mc import core

PID = "C18"

VALUES = [0.0, 1.0, -1.0, 1e-9, 12345.678, 1e12, 1 / 3, -2.5e-7, 1e-300, 7.0]
TOL = 1e-12


def close(a, b, steps=1):
    if a is None or b is None or isinstance(a, bool):
        return False
    try:
        return abs(a - b) <= TOL * steps * max(abs(a), abs(b)) + 1e-320
    except TypeError:
        return False


class StubAnalog:
    def __init__(self, ch):
        self.v = 0.0

    def getVoltage(self):
        return self.v

    def getAverageVoltage(self):
        return self.v


class StubCounter:
    def __init__(self, ch):
        self.p = 0.0

    def setSemiPeriodMode(self, highSemiPeriod=True):
        pass

    def getPeriod(self):
        return self.p


class StubWpilib:
    AnalogInput = StubAnalog
    Counter = StubCounter


def unit_family(units, depth):
    """Built-in units plus generated user-defined chains: every chain of length <= depth over the factor alphabet,
    hanging off each built-in unit and off a user-defined root."""
    U = units.Unit
    fam = {"meter": (units.meter, 1.0), "centimeter": (units.centimeter, 0.01), "foot": (units.foot, 0.3048), "inch": (units.inch, 0.3048 / 12)}
    # name -> (unit, size of one such unit in metres (None for the separate user tree)), computed independently
    factors = [2.0, 0.3048, 12.0, 100.0]
    user = {}
    root = U(base_unit=None, base_to_unit=lambda x: None, unit_to_base=lambda x: None)
    user["uroot"] = (root, 1.0)
    bases = list(fam.items()) + [("uroot", (root, 1.0))]
    for bname, (bunit, bsize) in bases:
        frontier = [(bname, bunit, bsize, 0)]
        while frontier:
            nm, un, size, d = frontier.pop()
            if d >= depth:
                continue
            for f in factors if d == 0 else factors[:2]:
                # one new unit = f base units  (unit_to_base multiplies by f)
                child = U(base_unit=un, base_to_unit=(lambda x, f=f: x / f), unit_to_base=(lambda x, f=f: x * f))
                cname = f"{nm}*{f}"
                (user if bname == "uroot" else fam)[cname] = (child, size * f)
                frontier.append((cname, child, size * f, d + 1))
    # user units whose conversion functions themselves call units.convert (a unit defined "through" another unit), with a
    # further unit on top of them: hand = 4 inches (defined through metre<->inch), span2 = 2 hands, span4 = 2 span2
    hand = U(base_unit=units.meter, base_to_unit=lambda m: units.convert(units.meter, units.inch, m) / 4, unit_to_base=lambda h: units.convert(units.inch, units.meter, h * 4))
    span2 = U(base_unit=hand, base_to_unit=lambda h: h / 2, unit_to_base=lambda s2: s2 * 2)
    span4 = U(base_unit=span2, base_to_unit=lambda s2: units.convert(hand, span2, units.convert(span2, hand, s2)) / 2, unit_to_base=lambda s4: s4 * 2)
    inch_size = 0.3048 / 12
    fam["hand(reentrant)"] = (hand, 4 * inch_size)
    fam["span2*on-hand"] = (span2, 8 * inch_size)
    fam["span4*on*span2"] = (span4, 16 * inch_size)
    return fam, user


def check_units(res, tier):
    core.bind_repo()
    from robotpy_ext.common_drivers import units

    builtin = {"meter": (units.meter, 1.0), "centimeter": (units.centimeter, 0.01), "foot": (units.foot, 0.3048), "inch": (units.inch, 0.3048 / 12)}
    fam, user = unit_family(units, 2 if tier == "quick" else 4)

    def conv(a, b, v):
        res.executions += 1
        try:
            return units.convert(a, b, v)
        except Exception as e:  # noqa
            res.violation("convert-raises", f"units.convert raised {type(e).__name__}: {e} for value {v!r}", dict(engine="inputs", kind="units", value=v))
            return None

    # exact constants
    for (a, b, v, want) in [("meter", "centimeter", 1.0, 100.0), ("foot", "meter", 1.0, 0.3048), ("foot", "inch", 1.0, 12.0), ("centimeter", "meter", 100.0, 1.0), ("inch", "foot", 12.0, 1.0)]:
        got = conv(builtin[a][0], builtin[b][0], v)
        res.checks += 1
        if got != want:
            res.violation(f"constant:{a}->{b}", f"convert({a}, {b}, {v}) = {got!r}, expected exactly {want!r}", dict(engine="inputs", kind="units", a=a, b=b, c=b, value=v))

    def triples(table, label, full):
        names = list(table)
        combos = itertools.product(names, repeat=3) if full else ((a, b, c) for a in names for b in names[:: max(1, len(names) // 12)] for c in names[:: max(1, len(names) // 9)])
        for a, b, c in combos:
            ua, sa = table[a]
            ub, sb = table[b]
            uc, sc = table[c]
            depth_a = a.count("*") + 1
            steps = 4 + 2 * (a.count("*") + b.count("*") + c.count("*"))
            for v in VALUES:
                res.checks += 4
                rp = dict(engine="inputs", kind="units", family=label, a=a, b=b, c=c, value=v)
                same = conv(ua, ua, v)
                if not (same == v or close(same, v, steps)):
                    res.violation(f"same-unit:{'root' if '*' not in a and a in ('meter', 'uroot') else 'derived'}", f"convert({a}, {a}, {v!r}) = {same!r}", rp)
                    continue
                ab = conv(ua, ub, v)
                want_ab = v * sa / sb
                if not close(ab, want_ab, steps):
                    res.violation(f"scale:{label}", f"convert({a}, {b}, {v!r}) = {ab!r}, expected {want_ab!r}", rp)
                    continue
                back = conv(ub, ua, ab)
                if not close(back, v, steps):
                    res.violation(f"round-trip:{label}", f"{a}->{b}->{a} of {v!r} = {back!r}", rp)
                    continue
                abc = conv(ub, uc, ab)
                ac = conv(ua, uc, v)
                if not close(abc, ac, steps):
                    res.violation(f"path-dependence:{label}", f"{a}->{b}->{c} of {v!r} = {abc!r}, {a}->{c} = {ac!r}", rp)
                    continue
                # linearity
                if v not in (0.0,) and abs(v) < 1e100:
                    two = conv(ua, ub, 2 * v)
                    if not close(two, 2 * ab, steps):
                        res.violation(f"nonlinear:{label}", f"convert({a}, {b}, 2*{v!r}) = {two!r}, 2*convert = {2 * ab!r}", rp)
            res.outcome(f"{label}:{a}:{c}")

    triples(builtin, "builtin", True)
    triples(fam, "builtin+user-chains", tier == "thorough" and len(fam) <= 40)
    triples(user, "user-tree", tier == "thorough" and len(user) <= 40)
    reent = {k: v for k, v in fam.items() if k in ("meter", "inch", "centimeter", "foot") or "reentrant" in k or k.startswith("span")}
    triples(reent, "reentrant-user-units", True)
    # short-lived user units: each is created, used and dropped before the next one exists (so that whatever the
    # library remembers about a unit that is gone cannot leak into an unrelated later one), alone and as parent/child pairs
    import gc

    ks = [1000.0, 0.001, 2.0, 0.5, 12.0, 0.3048, 100.0, 1.0, 3.0, 0.25]
    rounds = 30 if tier == "quick" else 300
    for rnd in range(rounds):
        for i, k in enumerate(ks):
            k2 = ks[(i + rnd + 1) % len(ks)]
            rp = dict(engine="inputs", kind="units-short-lived", factor=k, round=rnd)
            u = units.Unit(base_unit=units.meter, base_to_unit=(lambda x, k=k: x * k), unit_to_base=(lambda x, k=k: x / k))
            got = conv(units.meter, u, 2.0)
            back = conv(u, units.meter, got) if got is not None else None
            res.checks += 2
            if got is None or not close(got, 2.0 * k, 4) or not close(back, 2.0, 6):
                res.violation("short-lived-unit:single", f"a fresh user unit with {k} units per metre (created after {rnd * len(ks) + i} earlier ones were dropped): convert(meter, u, 2.0) = {got!r} (expected {2.0 * k!r}), back = {back!r}", rp)
                break
            if rnd % 3 == 0:
                child = units.Unit(base_unit=u, base_to_unit=(lambda x, k2=k2: x * k2), unit_to_base=(lambda x, k2=k2: x / k2))
                got2 = conv(units.centimeter, child, 50.0)
                res.checks += 1
                if got2 is None or not close(got2, 0.5 * k * k2, 8):
                    res.violation("short-lived-unit:chain", f"fresh chain metre -> u({k}) -> child({k2}): convert(centimeter, child, 50.0) = {got2!r}, expected {0.5 * k * k2!r}", rp)
                    break
                del child
            del u
            if rnd % 2:
                gc.collect()
        else:
            continue
        break
    res.bounds.update(short_lived_user_units=rounds * len(ks))
    res.bounds.update(builtin_triples=64, units_in_family=len(fam), units_in_user_tree=len(user), values=VALUES)
    res.sample(dict(kind="units", triple=["inch", "centimeter", "foot"], value=12345.678, identities=["same unit", "there and back", "a->b->c == a->c", "linear"]))


def check_sonar(res, tier):
    from robotpy_ext.common_drivers import units
    from robotpy_ext.common_drivers import xl_max_sonar_ez as xl

    xl.wpilib = StubWpilib
    outs = {"inch": (units.inch, 1.0), "foot": (units.foot, 1 / 12), "meter": (units.meter, 0.3048 / 12), "centimeter": (units.centimeter, 0.3048 / 12 * 100)}
    n = 400 if tier == "quick" else 4000
    import io
    import contextlib

    for oname, (ou, per_inch) in outs.items():
        pw = xl.MaxSonarEZPulseWidth(1, output_units=ou)
        with contextlib.redirect_stdout(io.StringIO()):
            an = xl.MaxSonarEZAnalog(2, output_units=ou)
        for i in range(n + 1):
            period = 0.03 * i / n  # pulse widths up to 30 ms
            pw.counter.p = period
            got = pw.get()
            want = period / 147e-6 * per_inch
            res.executions += 1
            res.checks += 1
            if not close(got, want, 8):
                res.violation(f"sonar-pulse-width:{oname}", f"pulse width {period!r} s -> {got!r} {oname}, expected {want!r}", dict(engine="inputs", kind="sonar-pw", unit=oname, period=period))
                break
        for i in range(n + 1):
            volt = 5.0 * i / n
            an.analog.v = volt
            got = an.get()
            want_cm = volt / 4.9e-3
            want = want_cm / 100 / (0.3048 / 12) * per_inch
            res.executions += 1
            res.checks += 1
            if not close(got, want, 8):
                res.violation(f"sonar-analog:{oname}", f"voltage {volt!r} V -> {got!r} {oname}, expected {want!r}", dict(engine="inputs", kind="sonar-analog", unit=oname, voltage=volt))
                break
        res.outcome(f"sonar:{oname}")
    res.sample(dict(kind="sonar", pulse_width_s=147e-6 * 10, unit="inch", expected=10.0))


def check_pressure(res, tier):
    from robotpy_ext.common_drivers import pressure_sensors as ps

    ps.AnalogInput = StubAnalog
    n = 200 if tier == "quick" else 2000
    for vcc in (5, 3.3, 5.0, 12.0, 0, 0.0):
        s = ps.REVAnalogPressureSensor(0, vcc)
        for i in range(-5, n + 1):
            v = 5.0 * i / n
            s.sensor.v = v
            res.executions += 1
            res.checks += 1
            rp = dict(engine="inputs", kind="pressure", vcc=vcc, voltage=v)
            try:
                got = s.pressure
            except Exception as e:  # noqa
                res.violation("pressure-raises", f"Vcc={vcc!r} V={v!r}: {type(e).__name__}: {e}", rp)
                break
            if vcc and v > 0:
                want = 250 * v / vcc - 25
                if not close(got, want, 4) and abs(got - want) > 1e-9:
                    res.violation("pressure-formula", f"Vcc={vcc!r} V={v!r}: {got!r}, expected {want!r}", rp)
                    break
        res.outcome(f"pressure:vcc={vcc}")
    # calibrate / voltage histories
    volts = [0.5, 2.0, 4.5, 0.0, -1.0]
    press = [0.0, 50.0, 120.0]
    # ("vcc", x): the public voltage_in attribute is changed (uncalibrated readings follow the formula with the current value; a
    # calibrated sensor reports p at the calibration voltage whatever it is)
    ops = [("v", x) for x in volts] + [("cal", p) for p in press] + [("read", None)] + [("vcc", 4.8), ("vcc", 3.0)]
    depth = 4 if tier == "quick" else 5
    for vcc in (5, 3.3):
        for ln in range(1, depth + 1):
            for seq in itertools.product(ops, repeat=ln):
                if not any(o[0] == "cal" for o in seq):
                    continue
                s = ps.REVAnalogPressureSensor(0, vcc)
                s.sensor.v = 1.0
                cal_v = cal_p = None
                ncal = 0
                res.executions += 1
                res.transitions += ln
                for kind, x in list(seq) + [("back", None), ("read", None)]:
                    rp = dict(engine="inputs", kind="pressure-history", vcc=vcc, history=[list(o) for o in seq])
                    try:
                        if kind == "vcc":
                            s.voltage_in = x
                            continue
                        if kind == "v":
                            s.sensor.v = x
                            continue  # reads are operations of their own: a defect may depend on *not* reading here
                        if kind == "back":
                            if cal_v is not None:
                                s.sensor.v = cal_v  # finish every history with a reading at the calibration voltage
                            continue
                        if kind == "cal":
                            s.calibrate(x)
                            cal_v, cal_p = s.sensor.v, x
                            ncal += 1
                            continue
                        got = s.pressure
                    except Exception as e:  # noqa
                        res.violation("pressure-raises", f"history {list(seq)}: {type(e).__name__}: {e}", rp)
                        break
                    res.checks += 1
                    if cal_v is not None and s.sensor.v == cal_v:
                        if not (abs(got - cal_p) <= 1e-9 * max(1.0, abs(cal_p))):
                            res.violation(f"calibration:{'first' if ncal == 1 else 'repeated'}", f"Vcc={vcc}: history {list(seq)}: reads {got!r} at the calibration voltage, calibrated to {cal_p!r}", rp)
                            break
                    elif cal_v is None and s.sensor.v > 0:
                        want = 250 * s.sensor.v / s.voltage_in - 25
                        if not close(got, want, 4):
                            res.violation("pressure-formula", f"history {list(seq)}: {got!r}, expected {want!r}", rp)
                            break
    res.sample(dict(kind="pressure-history", vcc=5, history=[["v", 2.0], ["cal", 50.0], ["v", 4.5], ["cal", 120.0], ["v", 4.5]], expected_last_reading=120.0))


def main(tier, seed):
    t0 = time.time()
    core.bind_repo()
    res = core.Result()
    check_units(res, tier)
    check_sonar(res, tier)
    check_pressure(res, tier)
    res.states = res.executions
    res.transitions = max(res.transitions, res.executions)
    rule = (
        "units: all 64 ordered triples of the built-in units and triples over generated user-defined unit chains (factors 2 / 0.3048 / 12 / 100, hanging off "
        "every built-in unit and off a separate user-defined root, chain depth 2 [thorough: 4]) x 10 values: same-unit, there-and-back, a->b->c == a->c, "
        "scale equals the independently computed ratio, linearity (rel 1e-12 per step), and the exact constants 100, 0.3048, 12; plus hundreds of short-lived user units created and dropped one after another. Sonar: pulse widths 0-30 ms and "
        "voltages 0-5 V on a grid x 4 output units. Pressure: voltages from -0.125 to 5 V on a grid x Vcc in {5, 3.3, 5.0, 12.0, 0, 0.0} (formula for positive "
        "voltages, never raises) and every set-voltage / set-voltage_in / read / calibrate(p) history up to the stated length (p in {0, 50, 120}): at the calibration voltage the reading is p."
    )
    return core.finish(PID, tier, seed, res, time.time() - t0, rule, ["wpilib inside the sonar / pressure driver modules is replaced by stub Counter / AnalogInput classes (as the repository's own tests do)", "readings at voltages other than the calibration voltage after calibrate() are not specified"])


def replay(path):
    r = json.load(open(path))["replay"]
    print(r)
    res = core.Result()
    core.bind_repo()
    check_units(res, "quick")
    check_sonar(res, "quick")
    check_pressure(res, "quick")
    for k, v in res.violations.items():
        print(k, v["msg"])
    return 1 if res.violations else 0
