"""C11 - @feedback methods are published every iteration in every mode under their key.  robot engine:
an independent NetworkTables read after every loop iteration of every history.  DESIGN.md section 4."""
import json
import time

from mc import core
from mc import robotdrv as R

PID = "C11"

# (method name, explicit key or None, return annotation source or None, kind of value)
FEEDBACKS = [
    ("get_angle", None, "float", "float"),
    ("speed", None, "int", "int"),
    ("get_whatever", "renamed", "bool", "bool"),
    ("get_label", None, "str", "str"),
    ("getter", None, "int", "int"),  # starts with 'get' but not 'get_': key is the full name
    ("target_dist", None, "float", "float"),  # contains 'get_' in the middle: key is the full name
    ("get_widget_count", None, "int", "int"),  # only the leading 'get_' is removed
    ("get_", None, "int", "int"),  # key becomes the empty string? -> see expected_key
    ("get_ints", None, "Sequence[int]", "ints"),
    ("get_floats", None, "list[float]", "floats"),
    ("get_names", None, "tuple[str, ...]", "strs"),
    ("get_flags", None, "Sequence[bool]", "bools"),
    ("get_rot", None, "Rotation2d", "rot"),
    ("get_rots", None, "Sequence[Rotation2d]", "rots"),
    ("get_nohint_f", None, None, "float"),
    ("get_nohint_s", None, None, "str"),
    ("get_nohint_b", None, None, "bool"),
    ("nohint_key", "k2", None, "float"),
    ("get_samples", None, "list[float]", "mutlist"),  # returns the same list object every time, mutated in place
    ("get_log", None, None, "mutstrs"),  # same, without annotation
    ("get_over", None, "int", "int"),  # on c1 this overrides an inherited @feedback of the same name
    ("get_pattern", None, "int", "pattern"),  # values repeat: X, Y, Y, X, X, X, Y, Y ...
    ("get_flagpat", None, "bool", "boolpat"),
    ("get_triple", None, "tuple[float, float, float]", "ftriple"),  # homogeneous fixed-length tuples; the getter returns ints
    ("get_single", None, "tuple[float]", "fsingle"),
    ("get_pair", None, "tuple[str, str]", "spair"),
    ("get_strpat", None, None, "strpat"),
]
PATTERN = [1, 2, 2, 1, 1, 1, 2, 2, 1, 2]
FEEDBACKS = [f for f in FEEDBACKS if f[0] != "get_"]
_MUT = {}
TYPESTR = {"ftriple": "double[]", "fsingle": "double[]", "spair": "string[]", "pattern": "int", "boolpat": "boolean", "strpat": "string", "mutlist": "double[]", "mutstrs": "string[]", "float": "double", "int": "int", "bool": "boolean", "str": "string", "ints": "int[]", "floats": "double[]", "strs": "string[]", "bools": "boolean[]", "rot": "struct:Rotation2d", "rots": "struct:Rotation2d[]"}


def expected_key(name, key):
    if key is not None:
        return key
    return name[4:] if name.startswith("get_") else name


def value_for(kind, n, salt=0, site=None):
    from wpimath.geometry import Rotation2d

    if kind in ("mutlist", "mutstrs"):
        lst = _MUT.setdefault(site, [])
        if n == 1:
            del lst[:]
        lst.append(float(n + salt) if kind == "mutlist" else f"m{n + salt}")
        return lst  # the very same object on every call
    if kind == "pattern":
        return PATTERN[(n - 1) % len(PATTERN)] + (salt % 7)
    if kind == "boolpat":
        return PATTERN[(n - 1) % len(PATTERN)] == 2
    if kind == "strpat":
        return f"p{PATTERN[(n - 1) % len(PATTERN)]}"
    n = n + salt
    return {
        "float": n * 0.5,
        "int": n * 3,
        "bool": n % 2 == 1,
        "str": f"v{n}",
        "ints": [n, n + 1],
        "floats": [n * 0.25],
        "strs": [f"a{n}", "b"],
        "bools": [n % 2 == 0, True],
        "rot": Rotation2d(n * 0.125),
        "rots": [Rotation2d(n * 0.125), Rotation2d(1.0)],
        "ftriple": (n, n + 1, n + 2),
        "fsingle": (n * 5,),
        "spair": (f"l{n}", f"r{n}"),
    }[kind]


def norm(v):
    """Comparable form of a value read from NT / returned by a getter."""
    from wpimath.geometry import Rotation2d

    if isinstance(v, Rotation2d):
        return ("rot", round(v.radians(), 12))
    if isinstance(v, (list, tuple)):
        return [norm(x) for x in v]
    if isinstance(v, bool):
        return v
    if isinstance(v, (int, float)):
        return float(v)
    return v


def fb_src(owner_site):
    src = ""
    for name, key, ann, kind in FEEDBACKS:
        deco = f"@feedback(key={key!r})" if key else "@feedback"
        a = f" -> {ann}" if ann else ""
        src += f"    {deco}\n    def {name}(self){a}:\n        return _fbval({owner_site!r} + '.fb.' + {name!r}, self)\n"
    return src


def the_layout(v):
    c = R.comp
    base_src = "    @feedback\n    def get_over(self) -> int:\n        return _fbval(self.SITE + '.fb.get_over', self)\n    @feedback\n    def get_inherited(self) -> int:\n        return 77\n"
    cb = c("cb", fb=False, extra_src=base_src)  # the base class is a component itself, declared before its subclass
    comps = [c("c0", fb=False, extra_src=fb_src("c0")), c("c1", fb=False, inherit="cb", extra_src=fb_src("c1"))]
    # v == 2: every robot-level getter is defined on a base robot class and inherited by the class that runs
    lay = R.layout(f"fb{v}", ([cb] + comps) if v != 1 else ([cb] + comps[::-1]), auto=(v == 0), teleop_in_auto=False, p_us=20000, robot_fb=False, robot_extra=fb_src("robot"), robot_base=(v == 2))
    lay["prelude"] = (
        "from collections.abc import Sequence\nfrom wpimath.geometry import Rotation2d\n"
    )
    return lay


_orig_source = R.robot_source


def robot_source(lay):
    src = _orig_source(lay)
    if lay.get("c1_parent"):
        src = src.replace("class K_c1():", f"class K_c1({lay['c1_parent']}):")
    return lay.get("prelude", "") + src


R.robot_source = robot_source

OWNERS = [("c0", "/components/c0/"), ("c1", "/components/c1/"), ("robot", "/robot/")]
# getters that exist only on a base class (component cb; its subclass instance c1): constant value 77
INHERITED = [("cb", "/components/cb/inherited"), ("c1", "/components/c1/inherited")]


def fbvalue(site, n):
    owner, _fb, name = site.split(".", 2)
    kind = next(k for nm, _k, _a, k in FEEDBACKS if nm == name)
    return value_for(kind, n, salt={"c0": 0, "c1": 100, "robot": 1000}.get(owner, 500), site=site)


def observe(robot, k, inst):
    """Independent read of every feedback entry after a loop iteration."""
    import ntcore

    out = {}
    for owner, prefix in OWNERS:
        for name, key, ann, kind in FEEDBACKS:
            path = prefix + expected_key(name, key)
            topic = inst.getTopic(path)
            if kind in ("rot", "rots"):
                from wpimath.geometry import Rotation2d

                if kind == "rot":
                    sub = ntcore.StructTopic(topic, Rotation2d).subscribe(Rotation2d(-9.0))
                else:
                    sub = ntcore.StructArrayTopic(topic, Rotation2d).subscribe([])
                try:
                    val = sub.get()
                except Exception as e:  # noqa
                    val = f"<unreadable: {e}>"
                sub.close()
                exists = topic.exists()
            else:
                v = inst.getEntry(path).getValue()
                exists = v.isValid()
                val = v.value() if exists else None
            out[f"{owner}.{name}"] = (norm(val), topic.getTypeString() if topic.exists() else None, exists)
    for owner, path in INHERITED:
        v = inst.getEntry(path).getValue()
        topic = inst.getTopic(path)
        out[f"{owner}.<inherited>"] = (norm(v.value()) if v.isValid() else None, topic.getTypeString() if topic.exists() else None, v.isValid())
    return out


def check(lay, h, life, plan):
    out = []
    cnt = {}
    last = {}
    for k, st in enumerate(life.steps):
        if st["mode"] == "end" or "obs" not in st:
            continue
        for owner, path in INHERITED:
            got = tuple(st["obs"][f"{owner}.<inherited>"])
            if got != (77.0, "int", True):
                out.append((f"inherited-getter:{owner}", f"history {h!r} step {k} (mode {st['mode']}): {path} (a @feedback defined on the base class of {owner}) holds {got!r}, expected (77.0, 'int', True)"))
                return out
        returned = {}
        for rec in life.log[st["start"]:st["end"]]:
            s = rec[0]
            if ".fb." in s:
                cnt[s] = cnt.get(s, 0) + 1
                returned.setdefault(s, []).append(None if (len(rec) > 3) else cnt[s])
        for owner, _p in OWNERS:
            for name, key, ann, kind in FEEDBACKS:
                site = f"{owner}.fb.{name}"
                calls = returned.get(site, [])
                if len(calls) != 1:
                    out.append((f"calls-per-iteration:{owner if owner == 'robot' else 'component'}", f"history {h!r} step {k} (mode {st['mode']}): {site} called {len(calls)} times in one iteration"))
                    return out
                val, typ, exists = st["obs"][f"{owner}.{name}"]
                if calls[0] is not None and kind in ("mutlist", "mutstrs"):
                    salt = {"c0": 0, "c1": 100, "robot": 1000}[owner]
                    exp = [float(i + salt) if kind == "mutlist" else f"m{i + salt}" for i in range(1, calls[0] + 1)]
                    last[site] = exp
                    fresh = True
                elif calls[0] is not None:
                    exp = norm(fbvalue(site, calls[0]))
                    last[site] = exp
                    fresh = True
                else:
                    exp = last.get(site, "<never-set>")
                    fresh = False
                own = owner if owner == "robot" else "component"
                if exp == "<never-set>":
                    continue  # a getter that raised on its very first call: nothing was ever published (value unspecified)
                if not exists or val != exp:
                    what = "stale-or-wrong-value" if fresh else "raising-getter-changed-entry"
                    out.append((f"{what}:{own}:{kind}:{st['mode']}", f"history {h!r} step {k} (mode {st['mode']}): entry for {site} (key {expected_key(name, key)!r}) holds {val!r}, the method returned {exp!r} {'this iteration' if fresh else 'last time it did not raise'}"))
                    return out
                if typ != TYPESTR[kind]:
                    out.append((f"topic-type:{kind}:{'hint' if ann else 'nohint'}", f"{site}: topic type {typ!r}, expected {TYPESTR[kind]!r}"))
                    return out
    return out


def work(item):
    R.install()
    lay = item["layout"]
    res = core.Result()
    for h in item["histories"]:
        for plan in item["plans"]:
            life = R.run_life(lay, h, fms=True, faults=plan, fbvalue=fbvalue, observe=observe)
            res.executions += 1
            res.transitions += len(life.steps)
            res.checks += len(life.steps) * len(FEEDBACKS) * 3
            rp = dict(engine="robot", layout=lay, history=h, faults=plan)
            if life.end is None or life.end[0] != "exit":
                res.violation("robot-stopped", f"layout {lay['name']} history {h!r} faults {plan}: end {life.end!r}", rp)
                continue
            for sig, msg in check(lay, h, life, plan):
                res.violation(sig, f"layout {lay['name']} faults {plan}: {msg}", rp)
            res.outcome(core.stable_hash([h, sorted(plan.items()), [sorted((k, repr(v)) for k, v in s["obs"].items()) for s in life.steps if "obs" in s][-1:]]))
            R.visit_history(res, lay, h, extra=(sorted((k, str(v)) for k, v in plan.items()),))
            if not res.samples and len(h) >= 3 and not plan:
                res.sample(dict(layout=lay["name"], history=h, entries_after_last_iteration={k: list(v) for k, v in life.steps[-2]["obs"].items()}))
    return res


def main(tier, seed):
    t0 = time.time()
    depth = 3 if tier == "quick" else 4
    hs = R.histories(depth)
    plans = [{}]
    for owner in ("c0", "robot"):
        for name in ("get_angle", "get_ints", "get_rot", "get_nohint_s", "speed"):
            for pat in (2, "every") if tier == "quick" else (1, 2, 3, "every"):
                plans.append({f"{owner}.fb.{name}": pat})
    plans.append({"c0.fb.get_angle": "every", "c1.fb.get_angle": 2, "robot.fb.speed": 2})
    # getters that raise on several (not necessarily consecutive) calls and must be published again afterwards
    multi = [{"c0.fb.get_angle": (1, 2, 3)}, {"robot.fb.speed": (2, 4, 6)}, {"c1.fb.get_label": (1, 3, 4, 5)}, {"c0.fb.get_pattern": (2, 3)}]
    long_hs = ["dddddddd", "tttttttt", "aaaaaaaa", "xxxxxxxx", "dtdtdtdt", "datxdatx", "ttddaaxx"]
    items = []
    for v in (0, 1, 2):
        lay = the_layout(v)
        for i in range(0, len(hs), 8):
            items.append(dict(layout=lay, histories=hs[i:i + 8], plans=plans))
        for h in long_hs:
            items.append(dict(layout=lay, histories=[h], plans=[{}] + multi))
    res = core.Result()
    for d in core.parallel("mc.props.c11", "work", items, seed=seed):
        res.merge(d)
    res.bounds.update(long_histories=long_hs, multi_call_fault_plans=[{k: list(v) for k, v in m.items()} for m in multi], history_depth=depth, layouts=3, feedback_methods_per_owner=len(FEEDBACKS), owners=["component c0", "component c1", "robot"], fault_plans=len(plans))
    rule = (
        "three layouts (two component orders; robot getters inherited from a base robot class; getters inherited from a base component class) x every driver-station history up to the stated depth (all four modes) x fault plans for selected getters (FMS attached): "
        f"each of 3 owners (two components, the robot) has {len(FEEDBACKS)} @feedback methods (with/without get_ prefix, explicit key=, return "
        "annotations int/float/bool/str/Sequence[int]/list[float]/tuple[str, ...]/tuple[float, float, float]/tuple[float]/tuple[str, str]/Sequence[bool]/Rotation2d/Sequence[Rotation2d], and no annotation) "
        "returning a function of their own call count; after every loop iteration an independent NetworkTables read must find exactly the value "
        "returned in that iteration under /components/<name>/<key> or /robot/<key>, with the expected topic type, each method called exactly once; "
        "an entry whose getter raised keeps its previous value. distinct outcome = distinct final entry table."
    )
    return core.finish(PID, tier, seed, res, time.time() - t0, rule, ["the value of an entry whose getter raised on its very first call (never published) is unspecified"])


def replay(path):
    R.install()
    r = json.load(open(path))["replay"]
    lay, h = r["layout"], r["history"]
    life = R.run_life(lay, h, fms=True, faults=r["faults"], fbvalue=fbvalue, observe=observe)
    for k, st in enumerate(life.steps):
        print(k, st["mode"], st.get("obs"))
    out = check(lay, h, life, r["faults"])
    for o in out:
        print("DISAGREEMENT:", o)
    return 1 if out else 0
