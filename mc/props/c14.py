"""C14 - autonomous mode selector: faithful discovery, one active mode, clean lifecycle.  `selector` engine:
(A) exhaustive family of generated packages on disk x FMS flag against a set-level discovery model;
(B) every start/periodic/disable history (prefix-replay DFS) x selection source, lifecycle monitor on the callback log;
(C) run() periods through the real MagicRobot loop with every selection source.
DESIGN.md section 4."""
import importlib
import itertools
import json
import os
import shutil
import sys
import time

from mc import core, env
from mc import robotdrv as R

PID = "C14"

# class variants: (MODE_NAME or None, DISABLED, DEFAULT, constructor raises)
VARIANTS = [
    (None, False, False, False),
    ("A", False, False, False),
    ("A", False, True, False),
    ("B", False, False, False),
    ("B", False, True, False),
    ("A", True, False, False),
    ("A", True, True, False),
    ("A", False, False, True),
    ("B", True, False, True),
    ("C", "F", "F", False),  # "F": the attribute is present and explicitly False
    ("B", "F", True, False),
]

CLS_SRC = '''
class {cls}:
{attrs}
    def __init__(self):
        builtins._verif_cb('init:{mod}.{cls}', self)
{boom}
    def on_enable(self):
        builtins._verif_cb('{mod}.{cls}.on_enable', self)
    def on_iteration(self, tm):
        builtins._verif_cb('{mod}.{cls}.on_iteration', self, tm)
    def on_disable(self):
        builtins._verif_cb('{mod}.{cls}.on_disable', self)
'''

_pk = [0]


def class_src(cls, mod, v):
    mode, dis, dflt, boom = VARIANTS[v]
    attrs = ""
    if mode is not None:
        attrs += f"    MODE_NAME = {mode!r}\n"
    if dis:
        attrs += f"    DISABLED = {dis is True}\n"
    if dflt:
        attrs += f"    DEFAULT = {dflt is True}\n"
    if not attrs:
        attrs = "    pass\n"
    return CLS_SRC.format(cls=cls, mod=mod, attrs=attrs, boom="        raise RuntimeError('constructor failure')" if boom else "")


def all_classes(m):
    """(class name, variant) of every class visible in a module: its own (K*) and the imported helper ones (H*)."""
    return [(f"K{ci}", v) for ci, v in enumerate(m["classes"])] + [(f"H{ci}", v) for ci, v in enumerate(m.get("helper") or ())]


def write_package(spec):
    """spec = list of modules; module = dict(fail=bool, classes=[variant index...]).  Returns (name, root dir)."""
    _pk[0] += 1
    name = f"apkg_{os.getpid()}_{_pk[0]}"
    root = os.path.join(os.getcwd(), "pk_" + name)
    pkg = os.path.join(root, name)
    os.makedirs(pkg)
    open(os.path.join(pkg, "__init__.py"), "w").close()
    for mi, m in enumerate(spec):
        src = "import builtins\n"
        if m["fail"]:
            src += "raise ValueError('module level failure')\n"
        if m.get("helper"):
            # mode classes defined in a helper sub-package (not scanned itself) and imported into this module
            lib = os.path.join(pkg, "lib")
            os.makedirs(lib, exist_ok=True)
            open(os.path.join(lib, "__init__.py"), "w").close()
            hsrc = "import builtins\n"
            for ci, v in enumerate(m["helper"]):
                hsrc += class_src(f"H{ci}", f"m{mi}", v)
            with open(os.path.join(lib, f"m{mi}.py"), "w") as f:
                f.write(hsrc)
            src += f"from .lib.m{mi} import " + ", ".join(f"H{ci}" for ci in range(len(m["helper"]))) + "\n"
        for ci, v in enumerate(m["classes"]):
            src += class_src(f"K{ci}", f"m{mi}", v)
        with open(os.path.join(pkg, f"m{mi}.py"), "w") as f:
            f.write(src)
    importlib.invalidate_caches()
    return name, root


def drop_package(name, root):
    for k in [k for k in sys.modules if k == name or k.startswith(name + ".")]:
        del sys.modules[k]
    shutil.rmtree(root, ignore_errors=True)


def set_fms(fms):
    import wpilib
    from wpilib.simulation import DriverStationSim as DS

    DS.setDsAttached(True)
    DS.setFmsAttached(fms)
    DS.setEnabled(False)
    DS.notifyNewData()
    wpilib.DriverStation.refreshData()
    if wpilib.DriverStation.isFMSAttached() != fms:
        raise core.HarnessError("cannot control the FMS flag")


def chooser_state():
    import wpilib

    wpilib.SmartDashboard.updateValues()
    inst = env.nt()
    base = "/SmartDashboard/Autonomous Mode/"
    opts = inst.getEntry(base + "options").getStringArray(None)
    dflt = inst.getEntry(base + "default").getString("<none>")
    return opts, dflt


def discovery_model(spec, fms):
    """Set-level expectation.  Returns dict(raises=bool or None(=either), instances=set of class ids, names=...)."""
    healthy = []  # (class id, mode name, default)
    import_fail = any(m["fail"] for m in spec)
    ctor_fail = False
    for mi, m in enumerate(spec):
        if m["fail"]:
            continue
        for cn, v in all_classes(m):
            mode, dis, dflt, boom = VARIANTS[v]
            dis, dflt = dis is True, dflt is True
            if mode is None or dis:
                continue
            if boom:
                ctor_fail = True
                continue
            healthy.append((f"m{mi}.{cn}", mode, dflt))
    names = [h[1] for h in healthy]
    dup = len(set(names)) != len(names)
    ndef = sum(1 for h in healthy if h[2])
    # without the FMS a module processed before a failing one may or may not have been instantiated: only the
    # error is specified.  Duplicates / several defaults are decided over the healthy classes.
    must_raise = import_fail or ctor_fail or dup or ndef > 1
    return dict(must_raise=must_raise, healthy=healthy, dup=dup, ndef=ndef)


def run_discovery(spec, fms, res):
    from robotpy_ext.autonomous import AutonomousModeSelector
    import wpilib.simulation as ws

    R._G.log = []
    R._G.cnt.clear()
    R._G.fault = {}
    R._G.hooks = []
    name, root = write_package(spec)
    sys.path.insert(0, root)
    sel = None
    raised = None
    rp = dict(engine="selector", part="discovery", spec=spec, fms=fms)
    desc = f"package {[(('FAIL ' if m['fail'] else '') + str([VARIANTS[v] for v in m['classes']]) + (' + imported from a helper sub-package ' + str([VARIANTS[v] for v in m['helper']]) if m.get('helper') else '')) for m in spec]} fms={fms}"
    try:
        set_fms(fms)
        try:
            sel = AutonomousModeSelector(name)
        except core.HarnessError:
            raise
        except Exception as e:  # noqa
            raised = e
        exp = discovery_model(spec, fms)
        res.visit("pkg", json.dumps(spec, sort_keys=True), fms)
        res.executions += 1
        res.checks += 1
        inits = [r[0][5:] for r in R._G.log if r[0].startswith("init:")]
        if not fms:
            if exp["must_raise"] and raised is None:
                what = "import" if any(m["fail"] for m in spec) else ("duplicate" if exp["dup"] else ("defaults" if exp["ndef"] > 1 else "constructor"))
                res.violation(f"nofms:error-not-raised:{what}", f"{desc}: start-up did not raise", rp)
            elif not exp["must_raise"] and raised is not None:
                res.violation("nofms:spurious-error", f"{desc}: raised {raised!r}", rp)
        else:
            if raised is not None:
                res.violation("fms:raised", f"{desc}: raised {raised!r} although the FMS is attached", rp)
        if raised is None:
            healthy_ids = sorted(h[0] for h in exp["healthy"])
            if sorted(inits) != sorted(set(inits)):
                res.violation("instantiated-twice", f"{desc}: constructor calls {inits}", rp)
            expected_inits = set(healthy_ids)
            # classes whose constructor raises are attempted too
            attempted_ok = set(i for i in inits)
            extra = attempted_ok - expected_inits - {f"m{mi}.{cn}" for mi, m in enumerate(spec) for cn, v in all_classes(m) if VARIANTS[v][3] and VARIANTS[v][0] is not None and VARIANTS[v][1] is not True and not m["fail"]}
            if extra:
                res.violation("instantiated-unexpected-class", f"{desc}: instantiated {sorted(extra)} (disabled, unnamed or failing-module classes)", rp)
            missing = expected_inits - attempted_ok
            if missing:
                res.violation("healthy-mode-not-instantiated", f"{desc}: not instantiated {sorted(missing)}", rp)
            inst_ids = sorted(type(v).__module__.split(".")[-1] + "." + type(v).__name__ for v in sel.modes.values())
            if inst_ids != healthy_ids:
                res.violation(f"modes-table:{'fms' if fms else 'nofms'}", f"{desc}: modes holds instances of {inst_ids}, healthy classes are {healthy_ids}", rp)
            if not exp["dup"]:
                keys = sorted(sel.modes.keys())
                if keys != sorted(h[1] for h in exp["healthy"]):
                    res.violation("modes-keys", f"{desc}: modes keyed by {keys}", rp)
                for k, v in sel.modes.items():
                    if v.MODE_NAME != k:
                        res.violation("modes-keys", f"{desc}: key {k!r} holds mode {v.MODE_NAME!r}", rp)
            opts, dflt = chooser_state()
            if opts is None or sorted(opts) != sorted(list(sel.modes.keys()) + ["None"]):
                res.violation("chooser-options", f"{desc}: chooser offers {opts}, modes {sorted(sel.modes.keys())} + 'None' expected", rp)
            defaults = [k for k, v in sel.modes.items() if getattr(v, "DEFAULT", False)]
            if not defaults and dflt != "None":
                res.violation("chooser-default", f"{desc}: preselected {dflt!r}, expected 'None'", rp)
            if defaults and dflt not in defaults:
                res.violation("chooser-default", f"{desc}: preselected {dflt!r}, expected one of {defaults}", rp)
            res.outcome(core.stable_hash([inst_ids, sorted(opts or []), dflt]))
        else:
            res.outcome("raised:" + type(raised).__name__)
    finally:
        sys.path.remove(root)
        # SmartDashboard must forget the chooser while the chooser is still alive (the other order crashes
        # natively inside a later SmartDashboard.putData)
        ws._simulation._resetWpilibSimulationData()
        sel = None
        drop_package(name, root)
        env.nt_reset()


def module_variants(maxcls):
    out = [dict(fail=True, classes=[1])]
    for k in range(0, maxcls + 1):
        for cs in itertools.product(range(len(VARIANTS)), repeat=k):
            out.append(dict(fail=False, classes=list(cs)))
    return out


def discovery_family(tier):
    one2 = module_variants(2)
    one1 = module_variants(1)
    fam = [[m] for m in one2]
    fam += [[a, b] for a in one1 for b in one1]
    M = lambda *cs: dict(fail=False, classes=list(cs))  # noqa: E731
    # three and four healthy classes sharing one MODE_NAME, spread over modules in different ways
    fam += [[M(1), M(1), M(1)], [M(1, 1), M(1)], [M(1), M(1, 1)], [M(1, 1), M(1, 1)], [M(1, 3), M(1), M(3, 1)], [M(2), M(1), M(1)], [M(1), M(7), M(1), M(1)]]
    # mode classes that a module imports from a helper sub-package (they are found in the module like its own)
    H = lambda own, helper: dict(fail=False, classes=list(own), helper=list(helper))  # noqa: E731
    fam += [[H([], [1])], [H([], [2])], [H([3], [2])], [H([], [1, 4])], [H([1], [1])], [H([], [5])], [H([], [7])], [M(1), H([], [3])], [H([], [3]), M(2)], [H([], [1]), H([], [3])]]
    if tier == "thorough":
        fam += [[a, b] for a in one2 for b in one1 if len(a["classes"]) == 2]
        small = [m for m in one1 if m["fail"] or not m["classes"] or m["classes"][0] in (1, 2, 3, 7)]
        fam += [[a, b, c] for a in small for b in small for c in small]
    return fam


def work_discovery(item):
    core.bind_repo()
    R.install()
    res = core.Result()
    for spec in item["specs"]:
        for fms in (False, True):
            run_discovery(spec, fms, res)
    if not res.samples:
        res.sample(dict(part="discovery", spec=item["specs"][-1], variants_legend="(MODE_NAME, DISABLED, DEFAULT, constructor raises)"))
    env.nt_reset()
    return res


# ------------------------------------------------------------------------------------------ part B: start / periodic / disable


LIFE_SPEC = [dict(fail=False, classes=[2, 3]), dict(fail=False, classes=[0, 5])]  # A (default), B ; unnamed, disabled A
SELECTIONS = [("none", None), ("auto-selector", "B"), ("auto-selector", "nope"), ("chooser", "B"), ("chooser", "A"), ("chooser", "None"), ("both", ("A", "B"))]


def apply_selection(sel_kind, sel_val):
    import wpilib

    inst = env.nt()
    if sel_kind in ("auto-selector", "both"):
        wpilib.SmartDashboard.putString("Auto Selector", sel_val if sel_kind == "auto-selector" else sel_val[0])
    if sel_kind in ("chooser", "both"):
        inst.getEntry("/SmartDashboard/Autonomous Mode/selected").setString(sel_val if sel_kind == "chooser" else sel_val[1])
        wpilib.SmartDashboard.updateValues()


def expected_mode(sel_kind, sel_val):
    if sel_kind == "none":
        return "m0.K0"  # A, the default
    if sel_kind == "auto-selector":
        return "m0.K1" if sel_val == "B" else "m0.K0"
    if sel_kind == "chooser":
        return {"A": "m0.K0", "B": "m0.K1", "None": None}[sel_val]
    return "m0.K0"  # dashboard string names a mode: it wins over the chooser


_life_pkg = {}


def life_menu(ops, restricted=False):
    if restricted:
        started = False
        for o in ops:
            if o[0] == "start":
                started = True
            elif o[0] == "disable":
                started = False
        if started:
            return [("disable",), ("periodic", 2)]
        menu = [("start",), ("auto", "B"), ("auto", "nope"), ("chooser", "B"), ("chooser", "None")]
        if ops and ops[-1][0] in ("auto", "chooser"):
            menu = [o for o in menu if o[0] != ops[-1][0]]
        if ops and ops[-1][0] == "periodic":
            menu = [("disable",)]
        return menu
    started = False
    for o in ops:
        if o[0] == "start":
            started = True
        elif o[0] == "disable":
            started = False
    if started:
        return [("periodic", 0), ("periodic", 2), ("disable",)]
    menu = [("start",), ("periodic", 1), ("disable",), ("auto", "B"), ("auto", "nope"), ("chooser", "B"), ("chooser", "None"), ("chooser", "A")]
    if ops and ops[-1][0] in ("auto", "chooser"):
        menu = [o for o in menu if o[0] != ops[-1][0]]  # a second edit of the same kind just overwrites the first
    return menu


def life_roots():
    out = []
    m0 = life_menu([])
    for i, a in enumerate(m0):
        for j, b in enumerate(life_menu([a])):
            out.append((i, j))
    return out


def run_history(ch, nops, sel, res):
    """One start / periodic / disable / selection-edit history.  `sel` is unused (kept for old replay files)."""
    from robotpy_ext.autonomous import AutonomousModeSelector
    import wpilib
    import wpilib.simulation as ws

    env.align()
    R._G.log = []
    R._G.cnt.clear()
    R._G.fault = {}
    R._G.hooks = []
    if "life" not in _life_pkg:
        _life_pkg["life"] = write_package(LIFE_SPEC)  # one package per worker process, re-used (the mode classes are stateless)
    name, root = _life_pkg["life"]
    sys.path.insert(0, root)
    selector = None
    MODE = {"A": "m0.K0", "B": "m0.K1"}
    try:
        set_fms(False)
        selector = AutonomousModeSelector(name)
        inst = env.nt()
        auto_str = None  # the dashboard's 'Auto Selector' string
        chooser = "A"  # chooser selection (A is the DEFAULT mode)
        started = False
        cur = None
        ops = []
        t_start = None
        want = []  # expected log
        for k in range(nops):
            menu = life_menu(ops, restricted=(sel == "restricted"))
            op = menu[ch.choose(len(menu), "op")]
            ops.append(op)
            res.visit("life", started, cur, auto_str, chooser, op[0])
            if op[0] == "start":
                env.advance(1)
                t_start = env.now()
                selector.start()
                started = True
                cur = MODE[auto_str] if auto_str in MODE else MODE.get(chooser)
                if cur:
                    want.append((cur + ".on_enable", None))
            elif op[0] == "periodic":
                env.advance(op[1])
                if t_start is None:
                    continue  # periodic() before the first start() is outside the alphabet
                selector.periodic()
                if started and cur:
                    want.append((cur + ".on_iteration", float(env.now() - t_start)))
            elif op[0] == "disable":
                selector.disable()
                if started and cur:
                    want.append((cur + ".on_disable", None))
                started = False
            elif op[0] == "auto":
                auto_str = op[1]
                wpilib.SmartDashboard.putString("Auto Selector", op[1])
            else:
                chooser = op[1]
                inst.getEntry("/SmartDashboard/Autonomous Mode/selected").setString(op[1])
                wpilib.SmartDashboard.updateValues()
        got = [(r[0], r[2]) for r in R._G.log if not r[0].startswith("init:")]
        res.executions += 1
        res.transitions += nops
        res.checks += 1
        rp = dict(engine="selector", part="lifecycle", selection=sel if sel == "restricted" else None, choices=list(ch.choices), nops=nops)
        if got != want:
            k = next((i for i, (a, b) in enumerate(zip(got, want)) if a != b), min(len(got), len(want)))
            g, w = (got[k] if k < len(got) else None), (want[k] if k < len(want) else None)
            periods = sum(1 for o in ops if o[0] == "start")
            if g is not None and w is not None and g[0] == w[0]:
                kind = "elapsed-time"
            elif g is not None and w is not None and g[0].split(".")[-1] == w[0].split(".")[-1]:
                kind = "wrong-mode-got-callback"
            elif g is None:
                kind = "callback-missing:" + w[0].split(".")[-1]
            else:
                kind = "unexpected-callback:" + g[0].split(".")[-1]
            res.violation(f"lifecycle:{kind}:{'first-period' if periods <= 1 else 'later-period'}", f"ops {ops}: callbacks {got}, expected {want}", rp)
        res.outcome(core.stable_hash(got))
        if not res.samples and nops >= 4 and len(got) >= 3:
            res.sample(dict(part="lifecycle", ops=[list(o) for o in ops], callbacks=[list(g) for g in got]))
    finally:
        sys.path.remove(root)
        ws._simulation._resetWpilibSimulationData()
        selector = None
        env.nt_reset()  # (collects garbage first) nothing of this execution may leak into the next one


def work_lifecycle(item):
    core.bind_repo()
    R.install()
    env.init()
    res = core.Result()
    sel = item["sel"] if item["sel"] == "restricted" else tuple(item["sel"])
    core.explore_dfs(lambda ch: run_history(ch, item["nops"], sel, res), roots=item["roots"])
    env.nt_reset()
    return res


# ------------------------------------------------------------------------------------------ part C: run() through MagicRobot


RUN_FAULTS = [
    {"mode.on_iteration": 1, "other.on_iteration": 1},
    {"mode.on_iteration": (1, 3), "other.on_iteration": (1, 3), "mode.on_enable": 1, "other.on_enable": 1},
    {"mode.on_disable": 1, "other.on_disable": 1, "mode.on_iteration": 2, "other.on_iteration": 2},
]


def work_run(item):
    core.bind_repo()
    R.install()
    res = core.Result()
    lay = R.layout("sel", [R.comp("c0")], auto=True, teleop_in_auto=False, p_us=20000, modes=("plain", "other"))
    for h in item["histories"]:
        for sel in item["selections"]:
            kind, val = sel

            def observe(robot, k, inst, kind=kind, val=val):
                import wpilib

                if k == 0:
                    if kind == "auto-selector":
                        wpilib.SmartDashboard.putString("Auto Selector", val)
                    elif kind == "chooser":
                        inst.getEntry("/SmartDashboard/Autonomous Mode/selected").setString(val)
                        wpilib.SmartDashboard.updateValues()
                return None

            # fault plans (FMS attached, so the robot swallows them): a mode callback that raises is still a delivered callback, and
            # every later callback of the period is delivered as if nothing had happened
            for plan in ([{}] + (RUN_FAULTS if (kind == "none" or (kind == "chooser" and val == "other")) else [])):
                life = R.run_life(lay, h, observe=observe, fms=bool(plan), faults=plan)
                res.executions += 1
                res.transitions += len(life.steps)
                res.checks += 1
                exp = {"none": "mode", "auto-selector": ("other" if val == "other" else "mode"), "chooser": {"other": "other", "plain": "mode", "None": None}.get(val, "mode")}[kind]
                if h[0] == "a":
                    # the selection is written after the first loop iteration: the first period started with the default
                    first_exp = "mode"
                else:
                    first_exp = exp
                rp = dict(engine="selector", part="run", history=h, selection=list(sel), faults={k: (list(v) if isinstance(v, tuple) else v) for k, v in plan.items()})
                if life.end is None or life.end[0] != "exit":
                    res.violation("run:robot-stopped", f"history {h!r} selection {sel}: {life.end!r}", rp)
                    continue
                # expected mode callbacks from the history
                want = []
                prev = None
                period = 0
                cur = None
                for k, st in enumerate(life.steps):
                    m = st["mode"]
                    if m != prev:
                        if prev == "a" and cur:
                            want.append(cur + ".on_disable")
                        if m == "a":
                            period += 1
                            cur = first_exp if (period == 1 and h[0] == "a") else exp
                            if cur:
                                want.append(cur + ".on_enable")
                        prev = m
                    if m == "a" and cur:
                        want.append(cur + ".on_iteration")
                got = [r[0] for r in life.log if r[0].split(".")[0] in ("mode", "other") and r[0].split(".")[-1] in ("on_enable", "on_iteration", "on_disable")]
                if got != want:
                    res.violation(f"run:callbacks:{kind}" + (":after-a-raising-callback" if plan else ""), f"history {h!r} selection {sel} faults {plan}: mode callbacks {got}, expected {want}", rp)
                # elapsed time passed to on_iteration: non-decreasing within a period, starting at 0
                last = None
                for r in life.log:
                    if r[0].endswith(".on_enable") and r[0].split(".")[0] in ("mode", "other"):
                        last = None
                    if r[0].endswith(".on_iteration"):
                        if last is None and r[2] != 0:
                            res.violation("run:elapsed-time-start", f"history {h!r}: first on_iteration got t={r[2]}", rp)
                        if last is not None and r[2] < last:
                            res.violation("run:elapsed-time-decreases", f"history {h!r}: on_iteration t={r[2]} after {last}", rp)
                        last = r[2]
                res.outcome(core.stable_hash([h, list(sel), got, sorted(plan)]))
    return res


def main(tier, seed):
    t0 = time.time()
    core.bind_repo()
    res = core.Result()
    fam = discovery_family(tier)
    items = [("mc.props.c14", "work_discovery", dict(specs=fam[i:i + 60])) for i in range(0, len(fam), 60)]
    nops = 6 if tier == "quick" else 7
    life_items = []
    for root in life_roots():
        life_items.append(dict(sel=[None, None], nops=nops, roots=[root]))
    # selection pass: several whole periods with selection edits in between (restricted alphabet, deeper)
    deep = 10 if tier == "quick" else 11
    m0 = life_menu([], restricted=True)
    for i, a in enumerate(m0):
        for j, b in enumerate(life_menu([a], restricted=True)):
            life_items.append(dict(sel="restricted", nops=deep, roots=[(i, j)]))
    hs = [h for h in R.histories(4 if tier == "quick" else 5, alphabet="dat") if "a" in h]
    sels = [("none", None), ("auto-selector", "other"), ("auto-selector", "bogus"), ("chooser", "other"), ("chooser", "None"), ("chooser", "plain")]
    run_items = [dict(histories=hs[i:i + 6], selections=sels) for i in range(0, len(hs), 6)]
    with core.WorkerPool() as pool:
        for d in pool.run("mc.props.c14", "work_discovery", [it[2] for it in items], seed=seed):
            res.merge(d)
        for d in pool.run("mc.props.c14", "work_lifecycle", life_items, seed=seed):
            res.merge(d)
        for d in pool.run("mc.props.c14", "work_run", run_items, seed=seed):
            res.merge(d)
    res.bounds.update(packages=len(fam), class_variants=len(VARIANTS), lifecycle_ops=nops, selection_pass_ops=deep, selections=[list(s) for s in SELECTIONS], run_history_depth=4 if tier == "quick" else 5)
    rule = (
        "(A) every generated package in the family (1-2 modules [thorough: 3], 0-2 classes per module, 11 class variants over MODE_NAME / DISABLED (absent, True, explicitly False) / DEFAULT (absent, True, explicitly False) / "
        "raising constructor, modules that raise at import) x FMS attached or not, written to disk and loaded by the real AutonomousModeSelector; set-level "
        "discovery model (who is instantiated once, modes table, chooser options and preselection, raise / tolerate). (B) every history of the stated length over start / periodic (after a clock advance) / disable and, between "
        "periods, edits of the dashboard 'Auto Selector' string and of the chooser selection; the exact callback log incl. the elapsed time passed to "
        "on_iteration is compared with a model (chosen mode = dashboard string if it names a mode, else the chooser selection). (C) run() periods through the real MagicRobot loop for every driver-station history containing autonomous x 6 "
        "selection sources. states = packages x FMS; transitions = selector operations / loop iterations."
    )
    return core.finish(PID, tier, seed, res, time.time() - t0, rule, [
        "periodic() before the first start(), start() twice without disable(), raising mode callbacks (C07) and classes re-exported into a second module are outside the alphabet",
        "a package whose own __init__ fails to import is outside the alphabet (the statement speaks about the modules of the package)",
        "without the FMS only the fact that start-up raises is specified, not which classes were instantiated before the error",
    ])


def replay(path):
    core.bind_repo()
    R.install()
    env.init()
    r = json.load(open(path))["replay"]
    res = core.Result()
    if r["part"] == "discovery":
        run_discovery(r["spec"], r["fms"], res)
    elif r["part"] == "lifecycle":
        run_history(core.Chooser(r["choices"]), r["nops"], r["selection"] if r.get("selection") == "restricted" else None, res)
    else:
        d = work_run(dict(histories=[r["history"]], selections=[tuple(r["selection"])]))
        res.merge(d)
    for k, v in res.violations.items():
        print(k, v["msg"])
    return 1 if res.violations else 0
