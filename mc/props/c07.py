"""C07 - FMS attached: no user-callback exception stops the robot; otherwise it crashes.
robot engine, differential oracle against the fault-free run of the same history.  DESIGN.md section 4."""
import itertools
import json
import time

from mc import core
from mc import robotdrv as R

PID = "C07"


def layouts(tier):
    c = R.comp
    L = [R.layout("two+auto+tia", [c("c0"), c("c1")], auto=True, teleop_in_auto=True, p_us=20000)]
    if tier == "thorough":
        L.append(R.layout("base+noauto+tia", [c("c0", on="base"), c("c1")], auto=False, teleop_in_auto=True, p_us=15625, robot_base=True))
        L.append(R.layout("one+auto", [c("c0")], auto=True, teleop_in_auto=False, p_us=20000))
    return L


def sites(lay):
    s = []
    for c in lay["comps"]:
        n = c["name"]
        if c["hooks"]:
            s += [n + ".on_enable", n + ".on_disable"]
        s += [n + ".execute"]
        if c["fb"]:
            s.append(n + ".fb")
    s += ["autonomousInit", "teleopInit", "disabledInit", "testInit", "disabledPeriodic", "teleopPeriodic", "testPeriodic", "robotPeriodic"]
    if lay["robot_fb"]:
        s.append("robot.fb")
    if lay["auto"]:
        s += ["mode.on_enable", "mode.on_iteration", "mode.on_disable"]
    return s


def site_seq(life):
    return [r[0] for r in life.log]


def mode_of_site(life, idx):
    for st in life.steps:
        if st["start"] <= idx < st.get("end", 1 << 30):
            return st["mode"]
    return "?"


def make_selector(step, name="other"):
    """Between loop iterations the harness (not the robot) edits the dashboard's 'Auto Selector' string."""
    if step is None:
        return None

    def observe(robot, k, inst):
        import wpilib

        if k == step:
            wpilib.SmartDashboard.putString("Auto Selector", name)
        return None

    return observe


def work_extra(item):
    """Slow control loops with faults more than error_report_interval apart, and faults around a change of the
    selected autonomous mode between two autonomous periods."""
    R.install()
    lay = item["layout"]
    res = core.Result()
    for h in item["histories"]:
        for sel in item["selects"]:
            ref = R.run_life(lay, h, fms=True, observe=make_selector(sel))
            res.executions += 1
            refseq = site_seq(ref)
            if ref.end[0] != "exit":
                res.violation("reference-run-failed", f"fault-free run of {h!r} (select@{sel}) ended with {ref.end!r}", dict(engine="robot", layout=lay, history=h, fms=True, faults={}, select=sel))
                continue
            for plan in item["plans"]:
                if not any(k in refseq for k in plan):
                    continue
                life = R.run_life(lay, h, fms=True, faults=plan, observe=make_selector(sel))
                res.executions += 1
                res.transitions += len(life.steps)
                res.checks += 1
                seq = site_seq(life)
                desc = ",".join(f"{k}@{v}" for k, v in sorted(plan.items()))
                if life.end[0] != "exit" or seq != refseq:
                    fired = [r for r in life.log if len(r) > 3]
                    where = fired[-1][0] if fired else "?"
                    kind = "robot-stopped" if life.end[0] != "exit" else "callbacks-skipped"
                    k = next((i for i, (x, y) in enumerate(zip(seq, refseq)) if x != y), min(len(seq), len(refseq)))
                    tag = "slow-loop" if lay["p_us"] >= 100000 else "selection-change"
                    res.violation(f"fms:{kind}:{where}:{tag}", f"layout {lay['name']} history {h!r} select-other-after-step {sel} faults {desc} (FMS attached): end={life.end!r}; callback sequence diverges from the fault-free run at index {k}: got {seq[k:k+4]}, fault-free {refseq[k:k+4]}", dict(engine="robot", layout=lay, history=h, fms=True, faults={kk: (list(v) if isinstance(v, tuple) else v) for kk, v in plan.items()}, select=sel))
                res.outcome(core.stable_hash([h, sel, desc, seq[-3:]]))
                for r in life.log:
                    if len(r) > 3:
                        res.visit(lay["name"], r[0], str(plan.get(r[0])), mode_of_site(life, life.log.index(r)), sel)
    if not res.samples and item["histories"]:
        res.sample(dict(layout=lay["name"], history=item["histories"][0], select_other_after_step=item["selects"], plans=[{k: (list(v) if isinstance(v, tuple) else v) for k, v in p.items()} for p in item["plans"][:3]]))
    return res


def fault_calls(ref, s, pat):
    """(log index, step index) of every call of site s in the fault-free run on which the plan raises."""
    out = []
    n = 0
    for i, r in enumerate(ref.log):
        if r[0] != s:
            continue
        n += 1
        if pat == "every" or n == pat or (isinstance(pat, (list, tuple)) and n in pat):
            k = next(j for j, st in enumerate(ref.steps) if st["start"] <= i < st.get("end", 1 << 30))
            out.append((i, k))
    return out


def work_switch(item):
    """The FMS attaches or detaches between two loop iterations: a fault is swallowed exactly while it is attached
    and propagates at the first faulting call made while it is not."""
    R.install()
    lay = item["layout"]
    res = core.Result()
    S = sites(lay)
    for h in item["histories"]:
        ref = R.run_life(lay, h, fms=True)
        res.executions += 1
        refseq = site_seq(ref)
        if ref.end[0] != "exit":
            res.violation("reference-run-failed", f"fault-free run of {h!r} ended with {ref.end!r}", dict(engine="robot", layout=lay, history=h, fms=True, faults={}))
            continue
        scheds = []
        for j in range(1, len(h)):
            scheds.append([True] * j + [False] * (len(h) - j))
            scheds.append([False] * j + [True] * (len(h) - j))
        for sched in scheds:
            for s in S:
                for pat in ("every", 2):
                    calls = fault_calls(ref, s, pat)
                    if not calls:
                        continue
                    plan = {s: pat}
                    life = R.run_life(lay, h, fms=sched, faults=plan)
                    res.executions += 1
                    res.transitions += len(life.steps)
                    res.checks += 1
                    seq = site_seq(life)
                    # the shutdown step has index len(h): it runs under the last FMS value
                    loud = [(i, k) for i, k in calls if not sched[min(k, len(sched) - 1)]]
                    rp = dict(engine="robot", layout=lay, history=h, fms=sched, faults=plan, source=R.robot_source(lay))
                    desc = f"{s}@{pat}, FMS per iteration {''.join('F' if x else '-' for x in sched)}"
                    if life.hang:
                        res.violation("hang", f"history {h!r} faults {desc}: robot thread unresponsive", rp)
                        return res
                    first = "fms-detached-later" if sched[0] else "fms-attached-later"
                    if loud:
                        cut = loud[0][0]
                        if life.end[0] != "exc" or not isinstance(life.end[1], R.Boom) or life.end[1].args != (s,):
                            res.violation(f"switch:not-propagated:{first}", f"layout {lay['name']} history {h!r} fault {desc}: the call of {s} in iteration {loud[0][1]} is made without the FMS but the robot ended with {life.end!r} instead of the raised exception; callbacks {seq[cut:cut + 4]}", rp)
                        elif seq != refseq[: cut + 1]:
                            k = next((i for i, (x, y) in enumerate(zip(seq, refseq)) if x != y), min(len(seq), len(refseq)))
                            res.violation(f"switch:wrong-run-before-propagation:{first}", f"layout {lay['name']} history {h!r} fault {desc}: callback sequence differs from the fault-free prefix at index {k}: got {seq[k:k + 4]}, expected {refseq[k:k + 4]} (propagation expected at index {cut})", rp)
                    else:
                        if life.end[0] != "exit" or seq != refseq:
                            res.violation(f"switch:not-swallowed:{first}", f"layout {lay['name']} history {h!r} fault {desc}: every faulting call is made with the FMS attached, but end={life.end!r} / the callback sequence differs from the fault-free run", rp)
                    res.outcome(core.stable_hash([h, desc, seq[-3:], life.end[0]]))
                    res.visit(lay["name"], s, str(pat), first, len(loud) > 0)
    if not res.samples and item["histories"]:
        res.sample(dict(layout=lay["name"], history=item["histories"][-1], fms_schedules="attached for the first j iterations then detached, and the converse, for every j", sites=S))
    return res


def work(item):
    R.install()
    lay = item["layout"]
    res = core.Result()
    S = sites(lay)
    for h in item["histories"]:
        ref = R.run_life(lay, h, fms=True)
        res.executions += 1
        refseq = site_seq(ref)
        if ref.end[0] != "exit":
            res.violation("reference-run-failed", f"fault-free run of {h!r} ended with {ref.end!r}", dict(engine="robot", layout=lay, history=h, fms=True, faults={}))
            continue
        ref_nofms = R.run_life(lay, h, fms=False)
        res.executions += 1
        if site_seq(ref_nofms) != refseq:
            res.violation("fms-flag-changes-fault-free-behaviour", f"history {h!r}", dict(engine="robot", layout=lay, history=h, fms=False, faults={}))
        plans = []
        if item["kind"] == "single":
            for s in S:
                for pat in (1, 2, "every"):
                    plans.append({s: pat})
                # the same fault, but an exception object whose str() itself raises (message built from a non-string argument)
                plans.append({s: 1, "__exc__": "badstr"})
        else:
            for a, b in itertools.combinations(S, 2):
                plans.append({a: "every", b: "every"})
        for plan in plans:
            # ---- FMS attached: everything else still runs, in order; the loop keeps iterating
            life = R.run_life(lay, h, fms=True, faults=plan)
            res.executions += 1
            res.transitions += len(life.steps)
            res.checks += 1
            fired = [r for r in life.log if len(r) > 3]
            desc = ",".join(f"{k}@{v}" for k, v in sorted(plan.items()))
            rp = dict(engine="robot", layout=lay, history=h, fms=True, faults=plan, source=R.robot_source(lay))
            if life.hang:
                res.violation("hang", f"history {h!r} faults {desc}: robot thread unresponsive", rp)
                return res
            seq = site_seq(life)
            if life.end[0] != "exit" or seq != refseq:
                # which faulting site stopped things?
                where = fired[-1][0] if fired else "?"
                idx = len(seq) - 1
                mode = mode_of_site(life, max(0, idx))
                kind = "robot-stopped" if life.end[0] != "exit" else "callbacks-skipped"
                sig = f"fms:{kind}:{where}:{mode if where == 'teleopPeriodic' else '*'}" + (":unprintable-exception" if plan.get("__exc__") else "")
                k = next((i for i, (x, y) in enumerate(zip(seq, refseq)) if x != y), min(len(seq), len(refseq)))
                res.violation(sig, f"layout {lay['name']} history {h!r} faults {desc} (FMS attached): end={life.end[0]}; callback sequence diverges from the fault-free run at index {k}: got {seq[k:k+4]}, fault-free {refseq[k:k+4]}; last fault raised in {where}", rp)
            res.outcome(core.stable_hash([h, desc, seq[-3:], life.end[0]]))
            for r in life.log:
                if len(r) > 3:
                    res.visit(lay["name"], r[0], str(plan.get(r[0])), mode_of_site(life, life.log.index(r)))
            # ---- FMS not attached: the same exception object propagates out of the robot program
            if item["kind"] == "single" and list(plan.values())[0] in (1, 2):
                s, pat = list(plan.items())[0]
                life2 = R.run_life(lay, h, fms=False, faults=plan)
                res.executions += 1
                res.checks += 1
                rp2 = dict(engine="robot", layout=lay, history=h, fms=False, faults=plan, source=R.robot_source(lay))
                seq2 = site_seq(life2)
                will_fire = refseq.count(s) >= pat
                if life2.hang:
                    res.violation("hang", f"history {h!r} faults {desc} (no FMS): robot thread unresponsive", rp2)
                    return res
                if will_fire:
                    cut = [i for i, x in enumerate(refseq) if x == s][pat - 1]
                    if life2.end[0] != "exc" or not isinstance(life2.end[1], R.BadStr if plan.get("__exc__") else R.Boom) or life2.end[1].args != (s,):
                        res.violation(f"nofms:not-propagated:{s}", f"layout {lay['name']} history {h!r} fault {desc} without FMS: robot ended with {life2.end!r} instead of the raised exception", rp2)
                    elif seq2 != refseq[: cut + 1]:
                        res.violation(f"nofms:ran-on-after-fault:{s}", f"layout {lay['name']} history {h!r} fault {desc} without FMS: callbacks after the fault: {seq2[cut+1:cut+5]}", rp2)
                else:
                    if life2.end[0] != "exit" or seq2 != refseq:
                        res.violation(f"nofms:unfired-plan-changes-run:{s}", f"history {h!r} fault {desc}", rp2)
        if not res.samples and len(h) >= 3:
            res.sample(dict(layout=lay["name"], history=h, fault_plans=len(plans), fault_free_log=refseq))
    return res


def main(tier, seed):
    t0 = time.time()
    d_single, d_pair = (3, 2) if tier == "quick" else (4, 3)
    items = []
    L = layouts(tier)
    for li, lay in enumerate(L):
        # the two extra layouts of the thorough tier get single-fault histories one word shorter
        hs = R.histories(d_single if li == 0 else d_single - 1)
        for i in range(0, len(hs), 6):
            items.append(dict(layout=lay, histories=hs[i:i + 6], kind="single"))
        hp = R.histories(d_pair if li == 0 else 2)
        for i in range(0, len(hp), 2):
            items.append(dict(layout=lay, histories=hp[i:i + 2], kind="pair"))
    # (a) slow loop (0.3 s period > error_report_interval): faults on calls that are 0.6 s or more apart
    c = R.comp
    slow = R.layout("slow-loop", [c("c0"), c("c1")], auto=True, teleop_in_auto=True, p_us=300000)
    slow_plans = [{s_: pat} for s_ in sites(slow) for pat in ((1, 3), (1, 2, 4))]
    slow_hs = R.long_histories(5 if tier == "quick" else 7, pairs=("dt", "da", "dx", "ta"))
    extra = [dict(layout=slow, histories=slow_hs[i:i + 4], selects=[None], plans=slow_plans) for i in range(0, len(slow_hs), 4)]
    # (b) the selected autonomous mode changes between two autonomous periods while mode callbacks fault
    sel_lay = R.layout("two-modes", [c("c0")], auto=True, teleop_in_auto=False, p_us=20000)
    mode_sites = ["mode.on_enable", "mode.on_iteration", "mode.on_disable", "other.on_enable", "other.on_iteration", "other.on_disable"]
    sel_plans = [{s_: pat} for s_ in mode_sites for pat in ("every", 1)] + [{"mode.on_disable": "every", "other.on_disable": "every"}, {"mode.on_enable": "every", "other.on_enable": "every"}]
    sel_hs = [h for h in R.long_histories(6 if tier == "quick" else 8, pairs=("da", "at")) if h.count("a") >= 2 and ("da" in h[1:] or "ta" in h[1:])]
    extra += [dict(layout=sel_lay, histories=sel_hs[i:i + 3], selects=[0, 1, 2, 3], plans=sel_plans) for i in range(0, len(sel_hs), 3)]
    # (c) the FMS attaches / detaches between two iterations
    sw_hs = R.histories(3 if tier == "quick" else 4)
    switch = [dict(layout=L[0], histories=sw_hs[i:i + 3]) for i in range(0, len(sw_hs), 3)]
    res = core.Result()
    with core.WorkerPool() as pool:
        for d in pool.run("mc.props.c07", "work", items, seed=seed):
            res.merge(d)
        for d in pool.run("mc.props.c07", "work_extra", extra, seed=seed):
            res.merge(d)
        for d in pool.run("mc.props.c07", "work_switch", switch, seed=seed):
            res.merge(d)
    res.bounds.update(slow_loop_histories=len(slow_hs), slow_loop_patterns=["calls 1 and 3", "calls 1, 2 and 4"], selection_change_histories=len(sel_hs), selection_change_after_step=[0, 1, 2, 3])
    res.bounds.update(fms_switch_history_depth=3 if tier == "quick" else 4, fms_switch_schedules="attached for the first j words then detached, and the converse, every j", exception_kinds=["plain Exception subclass", "exception whose __str__ raises (first call of each site)"])
    res.bounds.update(single_fault_history_depth=d_single, single_fault_history_depth_other_layouts=d_single - 1, fault_pair_history_depth=d_pair, layouts=len(L), sites=sites(L[0]), patterns=["1st call", "2nd call", "every call"])
    rule = (
        "for every layout, every driver-station history up to the stated depth and every fault plan (each callback site x {first, second, every call}; "
        "all pairs of sites raising on every call): run the real robot with the FMS attached and compare the sequence of callback sites with "
        "the fault-free run of the same history (must be identical, robot must still shut down cleanly); single plans are also run without "
        "the FMS, where the injected exception object must propagate out of startCompetition() and nothing may run after the faulting call. "
        "In addition: a robot with a 0.3 s loop period and faults on calls 0.6 s or more apart (longer than error_report_interval), and a robot with two "
        "autonomous modes whose selection (dashboard 'Auto Selector') changes between two autonomous periods while mode callbacks fault. "
        "Each site's first-call fault is also run with an exception object whose __str__ raises. The FMS flag is also switched between iterations (attached for the first j words, then detached, and the converse): "
        "faults are swallowed exactly while it is attached and the first faulting call made without it propagates. "
        "states = distinct (layout, faulting site, pattern, mode in which it fired) combinations actually reached; transitions = loop iterations executed under a fault plan."
    )
    return core.finish(PID, tier, seed, res, time.time() - t0, rule, ["values seen by later callbacks are not compared (a raising callback does not finish its own side effects)", "setup() and createObjects() are not callback sites of this property"])


def replay(path):
    R.install()
    r = json.load(open(path))["replay"]
    lay, h = r["layout"], r["history"]
    obs = make_selector(r.get("select")) if "select" in r else None
    ref = R.run_life(lay, h, fms=(True if isinstance(r["fms"], list) else r["fms"]), observe=obs)
    life = R.run_life(lay, h, fms=r["fms"], faults=r["faults"], observe=make_selector(r.get("select")) if "select" in r else None)
    print("fault-free :", site_seq(ref), ref.end[0])
    print("with faults:", site_seq(life), life.end)
    if isinstance(r["fms"], list):
        (s, pat), = [(k, (tuple(v) if isinstance(v, list) else v)) for k, v in r["faults"].items() if k != "__exc__"]
        sched = r["fms"]
        loud = [(i, k) for i, k in fault_calls(ref, s, pat) if not sched[min(k, len(sched) - 1)]]
        if loud:
            ok = life.end[0] == "exc" and isinstance(life.end[1], R.Boom) and site_seq(life) == site_seq(ref)[: loud[0][0] + 1]
        else:
            ok = life.end[0] == "exit" and site_seq(life) == site_seq(ref)
        print("FMS schedule", sched, "-> first call made without the FMS:", loud[:1], "ok" if ok else "VIOLATION")
        return 0 if ok else 1
    if r["fms"]:
        return 0 if (site_seq(ref) == site_seq(life) and life.end[0] == "exit") else 1
    return 0 if life.end[0] == "exc" else 1
