"""C05 - MagicRobot runs mode code, components, feedbacks, robotPeriodic in fixed order; one iteration per
control_loop_wait_time; /robot/mode names the mode.  robot engine, DESIGN.md section 4."""
import json
import time

from mc import core
from mc import robotdrv as R

PID = "C05"


def layouts(tier):
    c = R.comp
    L = [
        R.layout("two+auto+tia", [c("c0"), c("c1")], auto=True, teleop_in_auto=True, p_us=20000),
        R.layout("base-robot+inherit", [c("c0", on="base"), c("c1"), c("c2", inherit="c0")], auto=False, teleop_in_auto=False, p_us=15625, robot_base=True),
        R.layout("none+auto", [], auto=True, teleop_in_auto=False, p_us=5000),
        R.layout("nohooks+reversed", [c("c1", hooks=False), c("c0")], auto=True, teleop_in_auto=False, p_us=20000),
        R.layout("same-class-pair", [c("c0"), c("c1"), c("c2", same_class_as="c0")], auto=True, teleop_in_auto=False, p_us=20000),
    ]
    if tier == "thorough":
        import itertools

        for i, perm in enumerate(itertools.permutations(["c0", "c1", "c2"])):
            for tia in (False, True):
                for auto in (False, True):
                    L.append(R.layout(f"perm{i}-tia{int(tia)}-auto{int(auto)}", [c(n, on=("base" if n == "c1" else "derived")) for n in perm], auto=auto, teleop_in_auto=tia, p_us=20000, robot_base=(i % 2 == 0)))
    return L


def check_life(lay, h, life, res, want_timing=True):
    """Compare one fault-free life with the loop model.  Returns list of (sig, msg)."""
    out = []
    exp = R.loop_model(lay, h)
    P = lay["p_us"]
    if life.extra.get("nudges"):
        out.append(("loop-overslept", f"history {h!r}: the robot thread stayed silent for {R.NUDGE_AFTER:.0f} s after the clock had reached the programmed alarm; the harness had to move the clock further {life.extra['nudges']} time(s) before the loop went on"))
    if life.end is None or life.end[0] != "exit":
        out.append(("robot-did-not-exit-cleanly", f"end event {life.end!r}"))
        return out
    if len(life.steps) != len(exp):
        out.append(("step-count", f"{len(life.steps)} steps observed, {len(exp)} expected"))
        return out
    t_entry = None
    iters = 0
    prev = None
    for k, (st, e) in enumerate(zip(life.steps, exp)):
        got = R.norm_sites(life.log[st["start"]:st["end"]])
        res.checks += 1
        if got != e:
            out.append((f"order:{st['mode']}", f"history {h!r} step {k} (mode {st['mode']}): callbacks {R.fmt_sites(got)}, expected {R.fmt_sites(e)}"))
            break
        if st["mode"] == "end":
            continue
        # all callbacks of one step happen at one instant
        times = {rec[1] for rec in life.log[st["start"]:st["end"]]}
        if len(times) > 1:
            out.append(("time-moves-inside-iteration", f"step {k}: {sorted(times)}"))
        now = st["t"]
        if st["mode"] != prev:
            t_entry = now
            iters = 1
            prev = st["mode"]
        else:
            iters += 1
            if now != t_entry + (iters - 1) * P:
                out.append((f"iteration-time:{st['mode']}", f"history {h!r} step {k}: iteration {iters} of mode {st['mode']} ran at {now} us, expected {t_entry + (iters-1)*P} (entry {t_entry}, P={P})"))
        if want_timing and st.get("alarm") is not None and st["alarm"] != t_entry + iters * P:
            out.append((f"alarm-off-grid:{st['mode']}", f"history {h!r} step {k}: after iteration {iters} of mode {st['mode']} the loop sleeps until {st['alarm']} us, expected {t_entry + iters*P} (entry {t_entry}, P={P})"))
        if st.get("nt_mode") != R.MODE_NT[st["mode"]]:
            out.append((f"nt-mode:{st['mode']}", f"history {h!r} step {k}: /robot/mode = {st.get('nt_mode')!r} while running mode {st['mode']}"))
    return out


def work(item):
    R.install()
    lay = item["layout"]
    res = core.Result()
    for h in item["histories"]:
        life = R.run_life(lay, h)
        res.executions += 1
        res.transitions += len(life.steps)
        for sig, msg in check_life(lay, h, life, res):
            res.violation(sig, f"layout {lay['name']}: {msg}", dict(engine="robot", layout=lay, history=h, source=R.robot_source(lay)))
        res.outcome(core.stable_hash([lay["name"], [R.fmt_sites(R.norm_sites(life.log[s['start']:s['end']])) for s in life.steps]]))
        R.visit_history(res, lay, h)
        if not res.samples and len(h) >= 3:
            res.sample(dict(layout=lay["name"], history=h, callbacks=[R.fmt_sites(R.norm_sites(life.log[s['start']:s['end']])) for s in life.steps]))
    # determinism: re-run one history of this chunk
    if item["histories"]:
        h = item["histories"][item["seed"] % len(item["histories"])]
        a = R.run_life(lay, h)
        b = R.run_life(lay, h)
        if [r[0] for r in a.log] != [r[0] for r in b.log]:
            # two runs of the same history differ.  If either run disagrees with the loop model that is a finding about the
            # library (e.g. a loop that is no longer paced by the clock races with the harness); only two model-conforming
            # but different runs would be a harness problem.
            va, vb = check_life(lay, h, a, res), check_life(lay, h, b, res)
            if not va and not vb and [R.norm_sites([r]) for r in a.log] != [R.norm_sites([r]) for r in b.log]:
                raise core.HarnessError(f"non-deterministic robot life for {lay['name']} {h!r}")
            for sig, msg in va + vb:
                res.violation(sig, f"layout {lay['name']}: {msg}", dict(engine="robot", layout=lay, history=h, source=R.robot_source(lay)))
        res.determinism_reruns += 1
    return res


def main(tier, seed):
    t0 = time.time()
    depth = 5 if tier == "quick" else 6
    hs = R.histories(depth)
    # plus the disabled words that keep the autonomous / test selection bit set (to 4 words)
    hs = hs + [h for h in R.histories(4, alphabet="datxef", boot="datxef") if ("e" in h or "f" in h)]
    # plus long histories over every two-word alphabet (repeated periods, long alternations)
    seen_h = set(hs)
    hs = hs + [h for h in R.long_histories(8 if tier == "quick" else 9) if h not in seen_h]
    # ... and, for the first two layouts only, every history up to 6 (thorough 7) words over each three-word alphabet
    seen_h = set(hs)
    hs3 = [h for h in R.long_histories(6 if tier == "quick" else 7, pairs=("dtx", "dat", "dax", "atx")) if h not in seen_h]
    # only maximal histories need to run when shutdown is explored at every prefix: a history is a prefix of
    # its extensions, but shutdown in each mode at each point is part of the alphabet, so run them all
    items = []
    short = R.histories(4)
    for li, lay in enumerate(layouts(tier)):
        # the five hand-written layouts get the full history sets; the 24 generated permutation layouts of the thorough
        # tier (declaration orders x flags) get every four-word history up to depth 4
        hh = (hs + (hs3 if li < 2 else [])) if li < 5 else short
        for i in range(0, len(hh), 40):
            items.append(dict(layout=lay, histories=hh[i:i + 40], seed=seed))
    res = core.Result()
    for d in core.parallel("mc.props.c05", "work", items, seed=seed):
        res.merge(d)
    res.bounds.update(three_word_history_depth=6 if tier == "quick" else 7, two_word_history_depth=8 if tier == "quick" else 9, history_depth=depth, layouts=len(layouts(tier)), histories_per_layout=len(hs), alphabet="boot word + one driver-station word per loop iteration from {disabled, autonomous, teleop, test}; shutdown after every history")
    rule = (
        "every driver-station history up to the stated depth (boot word, then one word per control-loop iteration, then endCompetition) "
        "for every generated robot layout, executed through the real MagicRobot.startCompetition() in a baton-serialized thread; oracle = loop "
        "model (exact callback order per iteration, feedback block unordered), iteration instants and notifier alarms on the t_entry + k*P grid, "
        "/robot/mode after every iteration. states = distinct (layout, previous mode, mode, iterations-in-mode<=3); transitions = loop "
        "iterations executed; distinct outcome = distinct callback log."
    )
    assumptions = [
        "the order of feedback getters among themselves is unspecified (compared as a set placed between the last execute()/mode periodic and robotPeriodic)",
        "HAL simulation notifier semantics are the environment; the harness only moves the clock while the robot thread is at NotifierDelay.wait()",
    ]
    return core.finish(PID, tier, seed, res, time.time() - t0, rule, assumptions)


def replay(path):
    R.install()
    r = json.load(open(path))["replay"]
    lay, h = r["layout"], r["history"]
    life = R.run_life(lay, h)
    res = core.Result()
    print(R.robot_source(lay))
    for k, s in enumerate(life.steps):
        print(k, s["mode"], R.fmt_sites(R.norm_sites(life.log[s["start"]:s["end"]])), s.get("t"), s.get("alarm"), s.get("nt_mode"))
    out = check_life(lay, h, life, res)
    for o in out:
        print("DISAGREEMENT:", o)
    return 1 if out else 0
