"""C20 - crc7 equals the bit-serial CRC-7 (reflected polynomial 0x91) for every message.

Explicit-state exploration of the closed 128-state checksum register, driven only through the
real crc7(): a state is a register value, represented by the shortest message that reaches it;
a transition appends one byte.  DESIGN.md section 4 (crc engine).
"""
import itertools
import json
import time

from mc import core

PID = "C20"


def serial_step(s, d):
    s ^= d
    for _ in range(8):
        if s & 1:
            s ^= 0x91
        s >>= 1
    return s


def serial(data):
    s = 0
    for d in data:
        s = serial_step(s, d)
    return s


def _crc7():
    core.bind_repo()
    from robotpy_ext.misc.crc7 import crc7

    return crc7


def work(item):
    """item = ('e2e3', first_byte): all 3-byte messages with that first byte, end to end."""
    kind, a = item
    crc7 = _crc7()
    res = core.Result()
    for b in range(256):
        for c in range(256):
            m = bytes((a, b, c))
            got = crc7(m)
            res.checks += 1
            if got != serial(m):
                res.violation("e2e-mismatch", f"crc7({list(m)}) = {got}, bit-serial reference = {serial(m)}", dict(kind="message", message=list(m)))
    res.executions = 65536
    return res


def main(tier, seed):
    t0 = time.time()
    crc7 = _crc7()
    res = core.Result()

    # ... including one-shot iterables (an iterator over the bytes, a generator): the function only iterates its argument
    kinds = [bytes, list, bytearray, tuple, lambda m: memoryview(bytes(m)), lambda m: iter(bytes(m)), lambda m: (b for b in bytes(m))]

    class Raised(int):
        pass

    def call(msg, as_list=False):
        # the message is handed over in every container shape the function accepts (rotating), so a defect in how
        # the bytes are consumed cannot hide behind one input type
        res.executions += 1
        k = kinds[(res.executions + (1 if as_list else 0)) % len(kinds)]
        arg = k(msg)
        try:
            return crc7(arg)
        except Exception as e:  # noqa
            res.violation("raises", f"crc7({type(arg).__name__} of length {len(msg)}) raised {type(e).__name__}: {e}", dict(kind="message", message=list(msg)[:64]))
            return -1

    # base case
    if call(b"") != 0:
        res.violation("empty-nonzero", f"crc7(b'') = {crc7(b'')}", dict(kind="message", message=[]))

    # (1) explicit-state BFS over the register, through the real function only
    rep = {0: ()}
    frontier = [0]
    transitions = 0
    while frontier:
        nxt = []
        for s in frontier:
            p = rep[s]
            for d in range(256):
                m = p + (d,)
                got = call(m)
                transitions += 1
                res.checks += 1
                exp = serial_step(s, d)
                if not isinstance(got, int) or not (0 <= got < 128):
                    res.violation("not-7bit", f"crc7({list(m)}) = {got!r} is not a 7-bit integer", dict(kind="message", message=list(m)))
                    continue
                if got != exp:
                    res.violation("step-mismatch", f"register {s} --{d}--> {got}, bit-serial reference gives {exp}; message {list(m)}", dict(kind="message", message=list(m)))
                if got not in rep:
                    rep[got] = m
                    nxt.append(got)
        frontier = nxt
    res.states = len(rep)
    res.transitions = transitions
    res.bounds["register_states_reached"] = len(rep)
    res.bounds["bfs_closed"] = True
    res.sample(dict(kind="transition", state=5, representative_message=list(rep.get(5, ())), byte=200, next=serial_step(5, 200)))

    # merge-soundness probes: a state reached by different histories has the same futures
    probes = 0
    for s, p in rep.items():
        alts = [(0,) * 3 + p, (0,) * (17 - len(p) - 1) + p]
        # a second, different message with the same checksum: p + x + y with x chosen, y solved
        for x in (1, 0x80):
            mid = serial(p + (x,))
            for y in range(256):
                if serial_step(mid, y) == s:
                    alts.append(p + (x, y))
                    break
        for alt in alts:
            if serial(alt) != s:
                continue
            for d in range(256):
                got = call(alt + (d,), as_list=(d & 1 == 0))
                probes += 1
                res.checks += 1
                if got != serial_step(s, d):
                    res.violation("history-dependent", f"crc7({list(alt + (d,))}) = {got}, but state {s} + byte {d} must give {serial_step(s, d)}", dict(kind="message", message=list(alt + (d,))))
    res.extra["merge_probes"] = probes

    # (2) zero input permutes the register and fixes 0
    zero_img = sorted(call(rep[s] + (0,)) for s in rep)
    res.checks += 1
    if zero_img != list(range(128)) or call(b"\0") != 0:
        res.violation("zero-byte-not-permutation", f"appending a zero byte maps the register onto {len(set(zero_img))} values", dict(kind="message", message=[0]))

    # (3) error patterns through the real function, on zero and non-zero base messages
    L = 17
    nbits = 8 * L
    bases = [bytes(L), bytes((i * 37 + 11) & 0xFF for i in range(L)), bytes([0xFF] * L)]
    base_crc = [call(b) for b in bases]

    def flip(base, bits):
        m = bytearray(base)
        for b in bits:
            m[b // 8] ^= 1 << (b % 8)
        return bytes(m)

    patterns = []
    for i in range(nbits):
        patterns.append(("single", (i,)))
    for i in range(nbits):
        for dist in range(1, 127):
            if i + dist < nbits:
                patterns.append(("double", (i, i + dist)))
    for width in range(2, 8):
        for inner in range(1 << max(0, width - 2)):
            bits = [0, width - 1] + [k + 1 for k in range(width - 2) if inner >> k & 1]
            for off in range(nbits - width + 1):
                patterns.append(("burst", tuple(sorted(off + b for b in bits))))
    seen_syndromes = set()
    for kind, bits in patterns:
        for bi, base in enumerate(bases):
            got = call(flip(base, bits))
            res.checks += 1
            if got == base_crc[bi]:
                res.violation(f"undetected-{kind}", f"flipping bits {bits} of a {L}-byte message leaves the checksum at {got}", dict(kind="error-pattern", base=list(base), bits=list(bits)))
            if bi == 0:
                seen_syndromes.add(got)
    res.extra["error_patterns"] = len(patterns)
    res.extra["distinct_syndromes"] = len(seen_syndromes)
    res.sample(dict(kind="error-pattern", bits=[3, 129], base="17 zero bytes", checksum=crc7(flip(bases[0], (3, 129)))))
    # shorter messages too (every length 1..16, single bits and bursts)
    for ln in range(1, L):
        z = bytes(ln)
        for kind, bits in patterns:
            if kind == "double" or bits[-1] >= 8 * ln:
                continue
            res.checks += 1
            if call(flip(z, bits)) == 0:
                res.violation(f"undetected-{kind}", f"flipping bits {bits} of a {ln}-byte zero message leaves the checksum at 0", dict(kind="error-pattern", base=[0] * ln, bits=list(bits)))

    # linearity: all pairs of 1-byte messages; all pairs from a spanning set for lengths 2..17
    for a in range(256):
        ca = call((a,))
        for b in range(256):
            res.checks += 1
            if call((a ^ b,)) != ca ^ call((b,)):
                res.violation("nonlinear", f"crc7([{a}^{b}]) != crc7([{a}]) ^ crc7([{b}])", dict(kind="pair", a=[a], b=[b]))
    for ln in (2, 3, 5, 8, 17):
        units = [flip(bytes(ln), (i,)) for i in range(8 * ln)] + [bytes((i * 29 + 7) & 0xFF for i in range(ln)), bytes([0xFF] * ln)]
        cu = [call(u) for u in units]
        for (i, u), (j, v) in itertools.combinations(enumerate(units), 2):
            res.checks += 1
            x = bytes(p ^ q for p, q in zip(u, v))
            if call(x) != cu[i] ^ cu[j]:
                res.violation("nonlinear", f"crc7(a^b) != crc7(a)^crc7(b) for a={list(u)} b={list(v)}", dict(kind="pair", a=list(u), b=list(v)))

    # (4) flat end-to-end: all messages of length <= 2 (thorough: length 3 too, in parallel)
    outcomes = set()
    for ln in (0, 1, 2):
        for m in itertools.product(range(256), repeat=ln):
            got = call(m)
            res.checks += 1
            outcomes.add(got)
            if got != serial(m):
                res.violation("e2e-mismatch", f"crc7({list(m)}) = {got}, bit-serial reference = {serial(m)}", dict(kind="message", message=list(m)))
    for o in outcomes:
        res.outcome(f"crc={o}")
    res.bounds["flat_message_length"] = 2
    if tier == "thorough":
        for d in core.parallel("mc.props.c20", "work", [("e2e3", a) for a in range(256)], seed=seed):
            res.merge(d)
        res.bounds["flat_message_length"] = 3

    # (5) re-used mutable buffers: the checksum depends on the current contents only (navX-style frame buffer)
    import random as _r

    rng = _r.Random(12345)  # fixed: the explored set does not depend on VERIF_SEED
    for mk in (bytearray, list):
        for ln in (1, 2, 7, 17):
            buf = mk(bytes(ln))
            for step in range(8 * ln * 2):
                bit = step % (8 * ln)
                buf[bit // 8] ^= 1 << (bit % 8)  # in place, same object, same length
                got = crc7(buf)
                got2 = crc7(buf)
                res.executions += 2
                res.checks += 1
                if got != serial(bytes(buf)) or got2 != got:
                    res.violation("stale-result-for-reused-buffer", f"crc7 of a re-used {mk.__name__} after an in-place bit flip = {got}/{got2}, contents {list(buf)} -> {serial(bytes(buf))}", dict(kind="message", message=list(buf)))
                    break
    # (6) long messages: every length up to 1100 and a few far larger ones, structured contents
    pat = bytes((i * 131 + 7) & 0xFF for i in range(70000))
    lengths = list(range(0, 1101)) + [4095, 4096, 4097, 65535, 65536, 65537, 70000]
    for ln in lengths:
        for m in (pat[:ln], bytes(ln), b"\x01" + bytes(max(0, ln - 1))):
            if len(m) != ln:
                continue
            got = call(m)
            res.checks += 1
            if got != serial(m):
                res.violation("long-message-mismatch", f"crc7 of a {ln}-byte message = {got}, bit-serial reference = {serial(m)}", dict(kind="message", message=list(m[:64]) + ["..."], length=ln))
                break
    res.bounds["length_sweep"] = "every length 0..1100 plus 4095-4097, 65535-65537, 70000"

    # (7) call histories: crc7 must be a function of its argument alone.  Every sequence of calls over a small family of
    # related messages (prefixes / extensions / one-byte differences of each other) is run on a freshly re-loaded module,
    # so that hidden module-level state (memo tables, resume caches) starts empty for every sequence.
    import importlib
    import robotpy_ext.misc.crc7 as crcmod

    fam = [b"", b"\x01", b"\x02", b"\x01\x02", b"\x01\x03", b"\x01\x02\x03", b"\x01\x02\x04", b"\x01\x02\x03\x04", b"\xff\x00"]
    want = [serial(m) for m in fam]
    seq_len = 4 if tier == "quick" else 5
    nseq = 0
    bad = False
    for seq in itertools.product(range(len(fam)), repeat=seq_len):
        mod = importlib.reload(crcmod)
        nseq += 1
        for pos, i in enumerate(seq):
            res.executions += 1
            try:
                got = mod.crc7(bytearray(fam[i]) if (pos + i) % 2 else fam[i])
            except Exception as e:  # noqa
                got = f"{type(e).__name__}: {e}"
            if got != want[i]:
                res.violation("result-depends-on-call-history", f"after the calls {[list(fam[j]) for j in seq[:pos]]} crc7({list(fam[i])}) = {got}, expected {want[i]}", dict(kind="call-sequence", calls=[list(fam[j]) for j in seq[: pos + 1]]))
                bad = True
                break
        res.checks += 1
        if bad:
            break
    # two calls interleaved at byte granularity: the outer message is a generator that, just before handing over its byte k
    # (k = 0..len, i.e. every point at which the function can be suspended while it consumes its argument), runs a complete
    # second call.  Every (outer, inner, k) of the family is enumerated; both results must be the serial CRC.
    nested = 0
    bad = False
    for i, outer in enumerate(fam):
        for j, inner in enumerate(fam):
            for k in range(len(outer) + 1):
                inner_got = []

                def gen(outer=outer, inner=inner, k=k, inner_got=inner_got):
                    for pos in range(len(outer) + 1):
                        if pos == k:
                            inner_got.append(crc7(inner))
                        if pos < len(outer):
                            yield outer[pos]

                res.executions += 1
                nested += 1
                try:
                    got = crc7(gen())
                except Exception as e:  # noqa
                    got = f"{type(e).__name__}: {e}"
                res.checks += 1
                if got != want[i] or inner_got != [want[j]]:
                    res.violation("result-depends-on-overlapping-call", f"crc7({list(outer)}) with a complete crc7({list(inner)}) run before its byte {k} is consumed: outer = {got} (expected {want[i]}), inner = {inner_got} (expected {[want[j]]})", dict(kind="nested-call", outer=list(outer), inner=list(inner), at=k))
                    bad = True
                    break
            if bad:
                break
        if bad:
            break
    res.bounds["nested_call_interleavings"] = nested
    # every slice (start, stop, step) of a memoryview over short buffers: non-contiguous views are byte sequences too
    nsl = 0
    bad = False
    for buf in (b"\x00\x01\x00\x02", b"\x01\x02\x03\x04\x05", b"\xff\x00\x80\x7f\x01\x09"):
        mv = memoryview(buf)
        rng = [None] + list(range(-len(buf), len(buf) + 1))
        for start in rng:
            for stop in rng:
                for step in (1, 2, 3, -1, -2, -3):
                    v = mv[start:stop:step]
                    res.executions += 1
                    res.checks += 1
                    nsl += 1
                    try:
                        got = crc7(v)
                    except Exception as e:  # noqa
                        got = f"{type(e).__name__}: {e}"
                    if got != serial(bytes(v)):
                        res.violation("memoryview-slice-mismatch", f"crc7(memoryview({list(buf)})[{start}:{stop}:{step}]) = {got}, the bytes of the view are {list(bytes(v))} with CRC {serial(bytes(v))}", dict(kind="memoryview-slice", buffer=list(buf), slice=[start, stop, step]))
                        bad = True
                        break
                if bad:
                    break
            if bad:
                break
        if bad:
            break
    res.bounds["memoryview_slices"] = nsl
    # many distinct messages, then every one of them again (bounded memo tables)
    for n in range(1, 41):
        mod = importlib.reload(crcmod)
        msgs = [bytes(((k * 7 + j * 13 + 1) & 0xFF) for j in range(1 + k % 5)) for k in range(n)]
        for rnd in (0, 1, 2):
            for m in msgs:
                res.executions += 1
                got = mod.crc7(m)
                if got != serial(m):
                    res.violation("result-depends-on-call-history", f"{n} distinct messages, round {rnd}: crc7({list(m)}) = {got}, expected {serial(m)}", dict(kind="call-sequence", calls=[list(x) for x in msgs] * (rnd + 1)))
                    break
        res.checks += 1
    importlib.reload(crcmod)
    res.bounds["call_sequence_length"] = seq_len
    res.bounds["call_sequences"] = nseq

    # determinism: the same messages again
    for s in (1, 64, 127):
        m = rep[s] + (s,)
        if call(m) != call(m):
            res.violation("result-depends-on-call-history", f"two calls of crc7({list(m)}) gave different results", dict(kind="message", message=list(m)))
        res.determinism_reruns += 1

    rule = (
        "BFS over the checksum register through the real crc7(): state = register value (representative = shortest "
        "message reaching it), transition = append one byte (all 256), oracle = bit-serial CRC step (reflected 0x91, LSB "
        "first, zero init); merge probes re-run all 256 continuations from 4 alternative histories per state; then every "
        "single-bit, every two-bit (distance 1..126) and every burst (width<=7) error pattern at every offset of 17-byte "
        "messages on 3 base messages, linearity over all 1-byte pairs and spanning sets, and all messages of length <= "
        f"{res.bounds['flat_message_length']} end to end. distinct outcome = distinct checksum value observed."
    )
    assumptions = [
        "crc7 is a pure function of the byte sequence (checked by the merge probes, not assumed for the BFS result)",
        "messages longer than 17 bytes are covered by the induction over the closed register, not enumerated",
    ]
    return core.finish(PID, tier, seed, res, time.time() - t0, rule, assumptions)


def replay(path):
    crc7 = _crc7()
    r = json.load(open(path))["replay"]
    if r.get("kind") == "message":
        m = bytes(r["message"])
        print(f"crc7({list(m)}) = {crc7(m)}; bit-serial reference = {serial(m)}")
        return 0 if crc7(m) == serial(m) else 1
    if r.get("kind") == "call-sequence":
        import importlib
        import robotpy_ext.misc.crc7 as crcmod

        mod = importlib.reload(crcmod)
        ok = True
        for m in r["calls"]:
            got = mod.crc7(bytes(m))
            print(f"crc7({m}) = {got}; bit-serial reference = {serial(bytes(m))}")
            ok = ok and got == serial(bytes(m))
        return 0 if ok else 1
    if r.get("kind") == "error-pattern":
        base = bytearray(r["base"])
        m = bytearray(base)
        for b in r["bits"]:
            m[b // 8] ^= 1 << (b % 8)
        print(f"crc7(base) = {crc7(bytes(base))}, crc7(base with bits {r['bits']} flipped) = {crc7(bytes(m))}")
        return 0 if crc7(bytes(base)) != crc7(bytes(m)) else 1
    if r.get("kind") == "pair":
        a, b = bytes(r["a"]), bytes(r["b"])
        x = bytes(p ^ q for p, q in zip(a, b))
        print(f"crc7(a^b) = {crc7(x)}, crc7(a)^crc7(b) = {crc7(a) ^ crc7(b)}")
        return 0 if crc7(x) == crc7(a) ^ crc7(b) else 1
    print("unknown replay kind")
    return 2
