"""C12 - malformed StateMachine definitions are rejected when defined or instantiated.  `smdef` engine:
exhaustive product families of class definitions (exec'd with the real decorators) against an independent
definition model built on Python's own MRO.  DESIGN.md section 4."""
import itertools
import json
import keyword
import time

from mc import core, env

PID = "C12"

# state variants: (decorator kind, first, must_finish)
VARS = [("state", f, m) for f in (False, True) for m in (False, True)] + [("timed", f, m) for f in (False, True) for m in (False, True)] + [("default", False, False)]
REP = [VARS[0], VARS[2], VARS[6], VARS[8]]  # representative subset for the large layouts: plain, first, timed first, default


def deco(v):
    kind, first, mf = v
    if kind == "default":
        return "@default_state"
    args = []
    if kind == "timed":
        args.append("duration=1.0")
    if first:
        args.append("first=True")
    if mf:
        args.append("must_finish=True")
    if kind == "timed":
        return f"@timed_state({', '.join(args)})"
    return f"@state({', '.join(args)})" if args else "@state"


def member_src(name, v, doc):
    """v: variant tuple, 'plain' (ordinary method) or None (absent)."""
    if v is None:
        return ""
    if v == "plain":
        return f"    def {name}(self):\n        return 'plain'\n"
    d = f'        """{doc}"""\n' if doc else ""
    return f"    {deco(v)}\n    def {name}(self):\n{d}        pass\n"


def class_src(cname, bases, members):
    body = "".join(member_src(n, v, doc) for n, v, doc in members)
    return f"class {cname}({', '.join(bases)}):\n" + (body or "    pass\n")


# ------------------------------------------------------------------------------------------ hierarchy family


def hierarchies(tier):
    """Yields (label, [(class name, bases, [(member name, variant, doc)])...], leaf class name)."""
    names = ["a", "b", "c"]
    # single class, 0-3 states, all variants
    for k in range(0, 4):
        for vs in itertools.product(VARS, repeat=k):
            yield "single", [("M", ["StateMachine"], [(names[i], vs[i], f"doc {names[i]}" if i % 2 == 0 else None) for i in range(k)])], "M"
    # linear 2 levels: every distribution of 1-3 states over base / derived
    pool = VARS
    for k in range(1, 4):
        for vs in itertools.product(pool if k == 3 else VARS, repeat=k):
            for where in itertools.product((0, 1), repeat=k):
                if all(w == 0 for w in where) or all(w == 1 for w in where):
                    continue
                base = [(names[i], vs[i], None) for i in range(k) if where[i] == 0]
                der = [(names[i], vs[i], "d") for i in range(k) if where[i] == 1]
                yield "linear2", [("B", ["StateMachine"], base), ("M", ["B"], der)], "M"
    # linear 3 levels with an override in the middle
    for va, vb, vo in itertools.product(REP, REP, REP + ["plain"]):
        yield "linear3", [("B", ["StateMachine"], [("a", va, "base a"), ("b", vb, None)]), ("Mid", ["B"], [("a", vo, "mid a")]), ("M", ["Mid"], [])], "M"
    # overriding: derived redefines 'a' (other flags, or a plain method), optional second state in base or derived
    for va, vo in itertools.product(VARS, VARS + ["plain"]):
        for vb, wb in [(None, 0)] + [(v, w) for v in VARS for w in (0, 1)]:
            base = [("a", va, "base a")] + ([("b", vb, None)] if vb and wb == 0 else [])
            der = [("a", vo, "derived a")] + ([("b", vb, None)] if vb and wb == 1 else [])
            yield "override", [("B", ["StateMachine"], base), ("M", ["B"], der)], "M"
    # a state overriding a plain base method
    for vo in VARS:
        for vb in REP:
            yield "override-plain", [("B", ["StateMachine"], [("a", "plain", None), ("b", vb, None)]), ("M", ["B"], [("a", vo, "now a state")])], "M"
    # two mix-ins
    for va, vb in itertools.product(VARS, VARS):
        for vc in [None] + REP:
            yield "mixin", [("A", ["StateMachine"], [("a", va, "a")]), ("B", ["StateMachine"], [("b", vb, None)]), ("M", ["A", "B"], [("c", vc, "c")] if vc else [])], "M"
    # mix-ins that both define 'a'
    for va, vb in itertools.product(REP + ["plain"], REP + ["plain"]):
        if va == "plain" and vb == "plain":
            continue
        yield "mixin-clash", [("A", ["StateMachine"], [("a", va, "A.a")]), ("B", ["StateMachine"], [("a", vb, "B.a"), ("b", VARS[2], None)]), ("M", ["A", "B"], [])], "M"
    # diamond with overriding in either arm
    for va, vb in itertools.product(REP, REP):
        for ol, orr in itertools.product([None] + REP + ["plain"], repeat=2):
            for order in (("L", "R"), ("R", "L")):
                yield "diamond", [
                    ("Root", ["StateMachine"], [("a", va, "root a"), ("b", vb, None)]),
                    ("L", ["Root"], [("a", ol, "left a")] if ol else []),
                    ("R", ["Root"], [("a", orr, "right a")] if orr else []),
                    ("M", list(order), []),
                ], "M"


def hierarchy_model(classes, leaf, mro_names):
    """Effective member table from Python's own MRO over the *specification* records."""
    spec = {c[0]: c[2] for c in classes}
    table = {}  # name -> (variant, doc)   insertion order = first definition, bases first
    for cname in reversed(mro_names):
        for n, v, doc in spec.get(cname, ()):
            if v is None:
                continue
            table[n] = (v, doc)
    states = [(n, v, doc) for n, (v, doc) in table.items() if v != "plain"]
    firsts = sum(1 for n, v, d in states if v[1])
    defaults = sum(1 for n, v, d in states if v[0] == "default")
    errs = set()
    if firsts == 0:
        errs.add("NoFirstStateError")
    if firsts > 1:
        errs.add("MultipleFirstStatesError")
    if defaults > 1:
        errs.add("MultipleDefaultStatesError")
    redefined = set()
    seen = {}
    for cname in reversed(mro_names):
        for n, v, doc in spec.get(cname, ()):
            if v is None:
                continue
            if n in seen and (seen[n] == "plain") != (v == "plain"):
                redefined.add(n)
            seen[n] = v
    return errs, [s[0] for s in states], [(s[2] or "") for s in states], bool(redefined)


def run_hierarchy(label, classes, leaf, res, bases_first=False):
    from magicbot.magic_tunable import setup_tunables
    from magicbot.state_machine import StateMachine, default_state, state, timed_state

    src = "\n".join(class_src(c[0], c[1], c[2]) for c in classes)
    g = dict(StateMachine=StateMachine, state=state, timed_state=timed_state, default_state=default_state)
    rp = dict(engine="smdef", family="hierarchy", layout=label, source=src)
    res.executions += 1
    res.checks += 1
    try:
        exec(src, g)
    except Exception as e:  # noqa
        res.violation(f"legal-definition-rejected:{label}", f"{type(e).__name__}: {e}\n{src}", rp)
        return
    cls = g[leaf]
    mro_names = [c.__name__ for c in cls.__mro__]
    errs, names, descs, fuzzy_order = hierarchy_model(classes, leaf, mro_names)
    raised = None
    if bases_first:
        # other instantiable classes of the hierarchy come to life first (a robot with several machines sharing a base)
        for c in classes[:-1]:
            try:
                g[c[0]]()
            except Exception:  # noqa
                pass
    try:
        obj = cls()
    except Exception as e:  # noqa
        raised = e
    if errs and raised is not None:
        # a failed attempt must not make a later one succeed (robot code that retries, or a second robot object in one process)
        try:
            cls()
        except Exception as e2:  # noqa
            if type(e2).__name__ not in errs:
                res.violation(f"wrong-error:second-attempt:{label}", f"second instantiation raised {type(e2).__name__}: {e2}, applicable {sorted(errs)}\n{src}", rp)
        else:
            res.violation(f"malformed-machine-accepted:second-attempt:{'+'.join(sorted(errs))}:{label}", f"the first instantiation raised {type(raised).__name__}, the second succeeded; expected one of {sorted(errs)}\n{src}", rp)
    if errs:
        if raised is None:
            res.violation(f"malformed-machine-accepted:{'+'.join(sorted(errs))}:{label}", f"instantiation succeeded, expected one of {sorted(errs)}\n{src}", rp)
        elif type(raised).__name__ not in errs:
            res.violation(f"wrong-error:{label}", f"raised {type(raised).__name__}: {raised}, applicable {sorted(errs)}\n{src}", rp)
        res.outcome("err:" + "+".join(sorted(errs)))
        return
    if raised is not None:
        res.violation(f"valid-machine-rejected:{type(raised).__name__}:{label}", f"{type(raised).__name__}: {raised}\n{src}", rp)
        return
    name = env.fresh_name("d")
    setup_tunables(obj, name)
    got_names = list(obj.state_names)
    got_desc = list(obj.state_descriptions)
    nt_names = env.nt().getEntry(f"/components/{name}/state/state_names").getStringArray(None)
    if sorted(got_names) != sorted(names):
        res.violation(f"state_names-set:{label}", f"state_names {got_names}, states are {names}\n{src}", rp)
    elif not fuzzy_order and got_names != names:
        res.violation(f"state_names-order:{label}", f"state_names {got_names}, expected (bases first, definition order) {names}\n{src}", rp)
    elif dict(zip(got_names, got_desc)) != dict(zip(names, descs)) or len(got_desc) != len(got_names):
        res.violation(f"state_descriptions:{label}", f"descriptions {list(zip(got_names, got_desc))}, expected {list(zip(names, descs))}\n{src}", rp)
    elif list(nt_names or []) != got_names:
        res.violation("state_names-nt", f"NT topic holds {nt_names}, attribute {got_names}", rp)
    res.outcome(core.stable_hash([names, descs]))


# ------------------------------------------------------------------------------------------ definition-time family


DECOS = ["@state", "@state(first=True)", "@timed_state(duration=1.0, first=True)", "@default_state"]


def definition_cases():
    from magicbot.state_machine import StateMachine

    cases = []
    # every attribute name of StateMachine, and control names
    for n in sorted(set(dir(StateMachine))):
        if n.isidentifier() and not keyword.iskeyword(n):
            for d in (DECOS[1], DECOS[3]):
                cases.append(dict(kind="name", deco=d, name=n, expect="InvalidStateName"))
    for n in ("go", "engaged", "state", "_private", "Execute", "done_", "nextstate", "state_tm", "tm", "initial_call"):
        for d in (DECOS[1], DECOS[3]):
            cases.append(dict(kind="name", deco=d, name=n, expect=None))
    # parameter kinds x names, in second position and after a legal parameter
    legal = ("tm", "state_tm", "initial_call")
    for d in DECOS:
        for pname in legal + ("x", "self_", "TM"):
            for pk in ("pos", "var", "kw", "kwonly", "default"):
                for prefix in ("", "tm, ", "initial_call, state_tm, "):
                    if pname in prefix:
                        continue
                    p = {"pos": pname, "var": "*" + pname, "kw": "**" + pname, "kwonly": "*, " + pname, "default": pname + "=None"}[pk]
                    ok = pk in ("pos", "default") and pname in legal
                    cases.append(dict(kind="sig", deco=d, params=f"self, {prefix}{p}", expect=None if ok else "ValueError"))
        for first in ("this", "tm", "cls", "s"):
            cases.append(dict(kind="sig", deco=d, params=first, expect="ValueError"))
            if first != "tm":
                cases.append(dict(kind="sig", deco=d, params=first + ", tm", expect="ValueError"))
        for r in range(0, 4):
            for perm in itertools.permutations(legal, r):
                cases.append(dict(kind="sig", deco=d, params=", ".join(("self",) + perm), expect=None))
    # aliasing, definition outside a StateMachine, direct calls
    for d in DECOS:
        cases.append(dict(kind="alias", deco=d, expect="InvalidStateName"))
        cases.append(dict(kind="alias-in-subclass", deco=d, expect="InvalidStateName"))
        cases.append(dict(kind="outside", deco=d, expect="TypeError"))
        cases.append(dict(kind="call", deco=d, expect="IllegalCallError"))
    return cases


def case_src(c):
    d = c["deco"]
    if c["kind"] == "name":
        other = "" if "first=True" in d else "    @state(first=True)\n    def zz_first(self):\n        pass\n"
        return f"class M(StateMachine):\n{other}    {d}\n    def {c['name']}(self):\n        pass\n"
    if c["kind"] == "sig":
        other = "" if "first=True" in d else "    @state(first=True)\n    def zz_first(self):\n        pass\n"
        return f"class M(StateMachine):\n{other}    {d}\n    def s({c['params']}):\n        pass\n"
    other = "" if "first=True" in d else "    @state(first=True)\n    def zz_first(self):\n        pass\n"
    if c["kind"] == "alias":
        return f"class M(StateMachine):\n{other}    {d}\n    def s(self):\n        pass\n    t = s\n"
    if c["kind"] == "alias-in-subclass":
        return f"class B(StateMachine):\n{other}    {d}\n    def s(self):\n        pass\nclass M(B):\n    t = B.s\n"
    if c["kind"] == "outside":
        return f"class M:\n    {d}\n    def s(self):\n        pass\n"
    return f"class M(StateMachine):\n{other}    {d}\n    def s(self):\n        pass\n"


def run_case(c, res):
    from magicbot.state_machine import StateMachine, default_state, state, timed_state

    src = case_src(c)
    g = dict(StateMachine=StateMachine, state=state, timed_state=timed_state, default_state=default_state)
    rp = dict(engine="smdef", family="definition", case=c, source=src)
    res.executions += 1
    res.checks += 1
    raised = None
    try:
        exec(src, g)
        if c["kind"] == "call":
            m = g["M"]()
            try:
                m.s()
            except Exception as e:  # noqa
                raised = e
            if raised is None or type(raised).__name__ != "IllegalCallError":
                res.violation("direct-call-not-rejected", f"m.s() -> {raised!r}\n{src}", rp)
                return
            raised = None
            try:
                g["M"].s(m)
            except Exception as e:  # noqa
                raised = e
            if raised is None or type(raised).__name__ != "IllegalCallError":
                res.violation("direct-call-not-rejected", f"M.s(m) -> {raised!r}\n{src}", rp)
            res.outcome("call-rejected")
            return
        if c["expect"] is None and c["kind"] in ("name", "sig"):
            g["M"]()  # accepted definitions must also be instantiable
    except Exception as e:  # noqa
        raised = e
    exp = c["expect"]
    name = type(raised).__name__ if raised is not None else None
    if exp is None:
        if raised is not None:
            res.violation(f"legal-definition-rejected:{c['kind']}", f"{name}: {raised}\n{src}", rp)
    else:
        ok = raised is not None and any(name == e or any(b.__name__ == e for b in type(raised).__mro__) for e in exp.split("|"))
        if raised is None:
            what = c["kind"] if c["kind"] != "sig" else "sig:" + ("star" if "*" in c["params"] else "name")
            res.violation(f"illegal-definition-accepted:{what}", f"expected {exp} at class definition\n{src}", rp)
        elif not ok:
            res.violation(f"wrong-error:{c['kind']}", f"raised {name}: {raised}, expected {exp}\n{src}", rp)
    res.outcome(core.stable_hash([c["kind"], exp, name]))


def work(item):
    core.bind_repo()
    env.init()
    res = core.Result()
    if item["kind"] == "hier":
        for label, classes, leaf in item["cases"]:
            run_hierarchy(label, classes, leaf, res)
            if len(classes) > 1:
                run_hierarchy(label + "+bases-first", classes, leaf, res, bases_first=True)
            env.nt_maybe_reset(500)
        label, classes, leaf = item["cases"][0]
        res.sample(dict(family="hierarchy", layout=label, source="\n".join(class_src(c[0], c[1], c[2]) for c in classes)))
    else:
        for c in item["cases"]:
            run_case(c, res)
        res.sample(dict(family="definition", case=item["cases"][0], source=case_src(item["cases"][0])))
    return res


def main(tier, seed):
    t0 = time.time()
    core.bind_repo()
    H = list(hierarchies(tier))
    D = definition_cases()
    items = [dict(kind="hier", cases=H[i:i + 300]) for i in range(0, len(H), 300)]
    items += [dict(kind="def", cases=D[i:i + 300]) for i in range(0, len(D), 300)]
    res = core.Result()
    for d in core.parallel("mc.props.c12", "work", items, seed=seed):
        res.merge(d)
    res.states = len(H) + len(D)
    res.transitions = res.executions
    import collections

    res.bounds.update(hierarchy_definitions=len(H), per_layout=dict(collections.Counter(h[0] for h in H)), definition_time_cases=len(D), state_variants=[list(v) for v in VARS])
    rule = (
        "hierarchy family: single class with 0-3 states over all 9 state variants (decorator kind x first x must_finish); linear 2- and 3-level inheritance with "
        "every distribution of the states; overriding redefinitions (other flags, plain method over state, state over plain method); two mix-ins (also clashing "
        "on a name); diamonds with overriding in either arm and both base orders. Each is exec'd with the real decorators, instantiated, and compared with a model "
        "computed from Python's own MRO: error class from the applicable set, else state_names (attribute and NT topic; bases first, definition order) and aligned "
        "state_descriptions. definition family: every identifier in dir(StateMachine) as a state name; every parameter kind x name x position on each decorator; all "
        "16 legal ordered parameter subsets; aliasing; definition outside a StateMachine; direct calls. states = definitions enumerated."
    )
    return core.finish(PID, tier, seed, res, time.time() - t0, rule, ["'StateMachine attribute' is taken as a name in dir(StateMachine) (annotation-only names logger/state_names/state_descriptions are not attributes)", "which of several applicable instantiation errors is raised is unspecified", "positional-only parameters are unspecified"])


def replay(path):
    core.bind_repo()
    env.init()
    r = json.load(open(path))["replay"]
    print(r["source"])
    res = core.Result()
    if r["family"] == "definition":
        run_case(r["case"], res)
    else:
        for label, classes, leaf in hierarchies("thorough"):
            if "\n".join(class_src(c[0], c[1], c[2]) for c in classes) == r["source"]:
                run_hierarchy(label, classes, leaf, res)
                break
    for k, v in res.violations.items():
        print(k, v["msg"])
    return 1 if res.violations else 0
