"""C09 - tunables are per-instance NetworkTables values at the documented key.  `nt` engine:
(1) exhaustive product family of tunable definitions x owner kinds x subtable x writeDefault x pre-existing value;
(2) closed explicit-state exploration of python/NT read-write interleavings on two instances of one class;
(3) the same through a real MagicRobot start-up (component, autonomous mode and robot tunables).
DESIGN.md section 4."""
import itertools
import json
import time

from mc import core, env

PID = "C09"

# name -> (definition source, default, 3-value alphabet, topic type string)
def type_table():
    from wpimath.geometry import Rotation2d as R2

    return {
        "bool": ("tunable(True)", True, [True, False, True], "boolean"),
        "int": ("tunable(7)", 7, [7, -3, 100], "int"),
        "float": ("tunable(1.5)", 1.5, [1.5, -2.25, 0.0], "double"),
        "str": ("tunable('abc')", "abc", ["abc", "", "x y"], "string"),
        "bytes": ("tunable(b'ab')", b"ab", [b"ab", b"", b"\x00\xff"], "raw"),
        "struct": ("tunable(Rotation2d(0.5))", R2(0.5), [R2(0.5), R2(-1.0), R2(0.0)], "struct:Rotation2d"),
        "bools": ("tunable([True, False])", [True, False], [[True, False], [False], [True, True, True]], "boolean[]"),
        "ints": ("tunable([1, 2])", [1, 2], [[1, 2], [5], [0, 0, 9]], "int[]"),
        "floats": ("tunable([0.5])", [0.5], [[0.5], [1.25, 2.0], [-1.0]], "double[]"),
        "strs": ("tunable(['a', 'b'])", ["a", "b"], [["a", "b"], ["z"], ["", "q"]], "string[]"),
        "structs": ("tunable([Rotation2d(0.25)])", [R2(0.25)], [[R2(0.25)], [R2(1.0), R2(2.0)], [R2(-0.5)]], "struct:Rotation2d[]"),
        "empty-generic": ("tunable[Sequence[int]]([])", [], [[], [4], [1, 2]], "int[]"),
        "empty-classvar": ("tunable([])", [], [[], [0.5], [1.0, 2.0]], "double[]"),
        "empty-annotated": ("tunable([])", [], [[], ["s"], ["a", "b"]], "string[]"),
        "tuple": ("tunable((1.0, 2.0))", (1.0, 2.0), [(1.0, 2.0), (3.0,), (0.0, 0.0, 0.0)], "double[]"),
        # the type hint decides although the default alone would say otherwise
        "hinted-float": ("tunable[float](3)", 3, [3.0, -2.25, 0.5], "double"),
        "annot-float": ("tunable(0)", 0, [0.0, 0.25, -7.5], "double"),
        "hinted-floats": ("tunable[Sequence[float]]([0, 1])", [0, 1], [[0.0, 1.0], [2.5], [1.0, 2.0, 4.0]], "double[]"),
    }


ANNOT = {"empty-classvar": "ClassVar[tunable[Sequence[float]]]", "empty-annotated": "tunable[Sequence[str]]", "annot-float": "float"}


def norm(v):
    from wpimath.geometry import Rotation2d as R2

    if isinstance(v, R2):
        return ("rot", round(v.radians(), 12))
    if isinstance(v, (list, tuple)):
        return [norm(x) for x in v]
    if isinstance(v, (bytes, bytearray)):
        return ("bytes", bytes(v).hex())
    if isinstance(v, bool):
        return v
    if isinstance(v, (int, float)):
        return float(v)
    return v


def build_class(tname, wd=True, sub=None, attr="val", hier="flat"):
    import magicbot
    from collections.abc import Sequence
    from typing import ClassVar
    from wpimath.geometry import Rotation2d

    src, default, _alpha, _ts = type_table()[tname]
    opts = ""
    if not wd:
        opts += ", writeDefault=False"
    if sub:
        opts += f", subtable={sub!r}"
    src = src[:-1] + opts + ")"
    ann = f": {ANNOT[tname]}" if tname in ANNOT else ""
    code = f"class T:\n    {attr}{ann} = {src}\n    other = tunable(0.125)\n"
    if hier == "inherited":
        # the tunable is defined on a base class only
        code = code.replace("class T:", "class B:") + "class T(B):\n    pass\n"
    elif hier == "override":
        # a base class defines a tunable of the same name and type with another default; the subclass definition is in effect
        code = f"class B:\n    {attr} = tunable(_base_default{opts})\n" + code.replace("class T:", "class T(B):")
    g = dict(tunable=magicbot.tunable, Rotation2d=Rotation2d, Sequence=Sequence, ClassVar=ClassVar, _base_default=_alpha[2])
    exec(code, g)
    return g["T"], code


def typed_topic(inst, path, tname):
    import ntcore
    from wpimath.geometry import Rotation2d

    ts = type_table()[tname][3]
    t = inst.getTopic(path)
    return {
        "boolean": lambda: ntcore.BooleanTopic(t),
        "int": lambda: ntcore.IntegerTopic(t),
        "double": lambda: ntcore.DoubleTopic(t),
        "string": lambda: ntcore.StringTopic(t),
        "raw": lambda: ntcore.RawTopic(t),
        "struct:Rotation2d": lambda: ntcore.StructTopic(t, Rotation2d),
        "boolean[]": lambda: ntcore.BooleanArrayTopic(t),
        "int[]": lambda: ntcore.IntegerArrayTopic(t),
        "double[]": lambda: ntcore.DoubleArrayTopic(t),
        "string[]": lambda: ntcore.StringArrayTopic(t),
        "struct:Rotation2d[]": lambda: ntcore.StructArrayTopic(t, Rotation2d),
    }[ts]()


def publish(topic, tname):
    return topic.publish("raw") if type_table()[tname][3] == "raw" else topic.publish()


def subscribe(topic, tname, default):
    from wpimath.geometry import Rotation2d

    ts = type_table()[tname][3]
    if ts == "raw":
        return topic.subscribe("raw", b"<unset>")
    if ts == "struct:Rotation2d":
        return topic.subscribe(Rotation2d(-9.0))
    if ts.endswith("[]"):
        return topic.subscribe([])
    return topic.subscribe({"boolean": False, "int": -999, "double": -999.0, "string": "<unset>"}[ts])


def expected_key(owner, name, sub, attr):
    prefix = {"components": f"/components/{name}", "autonomous": f"/autonomous/{name}", "robot": "/robot"}[owner]
    return f"{prefix}/{sub + '/' if sub else ''}{attr}"


def setup(obj, owner, name):
    from magicbot.magic_tunable import setup_tunables

    if owner == "robot":
        setup_tunables(obj, "robot", None)
    else:
        setup_tunables(obj, name, owner)


# ------------------------------------------------------------------------------------------ part 1


def part1(res):
    from mc.core import stable_hash

    tt = type_table()
    inst = env.nt()
    n = 0
    for tname, owner, sub, wd, pre, hier in itertools.product(tt, ("components", "autonomous", "robot"), (None, "s"), (True, False), (False, True), ("flat", "inherited", "override")):
        n += 1
        obj = prepub = sub_ = topic = None
        if n % 100 == 1:
            env.nt_reset()  # nothing that holds an NT handle is alive here
        env.advance_us(10)
        _src, default, alpha, ts = tt[tname]
        name = f"n{n}"
        path = expected_key(owner, name, sub, "val")
        rp = dict(engine="nt", part=1, type=tname, owner=owner, subtable=sub, writeDefault=wd, preexisting=pre, hierarchy=hier)
        case = f"{tname} owner={owner} subtable={sub} writeDefault={wd} pre-existing={pre} class-hierarchy={hier}"
        res.executions += 1
        res.checks += 1
        try:
            cls, code = build_class(tname, wd, sub, hier=hier)
            prepub = None
            if pre:
                prepub = publish(typed_topic(inst, path, tname), tname)
                prepub.set(alpha[1])
                env.advance_us(10)
            obj = cls()
            setup(obj, owner, name)
            env.advance_us(10)
            topic = inst.getTopic(path)
            if not topic.exists():
                others = sorted(t.getName() for t in inst.getTopics() if not t.getName().startswith("/.schema"))
                res.violation(f"key:{owner}:{'sub' if sub else 'nosub'}", f"{case}: no topic at {path}; topics are {others}", rp)
                continue
            if topic.getTypeString() != ts:
                res.violation(f"topic-type:{tname}", f"{case}: topic type {topic.getTypeString()!r}, expected {ts!r}", rp)
            sub_ = subscribe(typed_topic(inst, path, tname), tname, default)
            exp = default if (wd or not pre) else alpha[1]
            got_nt = sub_.get()
            got_py = obj.val
            if norm(got_nt) != norm(exp) or norm(got_py) != norm(exp):
                res.violation(f"setup-value:writeDefault={wd}:pre={pre}" + ("" if hier == "flat" else f":{hier}"), f"{case}: after setup NT holds {got_nt!r}, attribute reads {got_py!r}, expected {exp!r}", rp)
            sub_.close()
            if prepub is not None:
                prepub.close()
            res.outcome(stable_hash([tname, owner, sub, wd, pre, norm(got_nt), ts]))
        except core.HarnessError:
            raise
        except Exception as e:  # noqa
            res.violation(f"setup-raises:{tname}", f"{case}: {type(e).__name__}: {e}", rp)
    res.sample(dict(part=1, case="float owner=components subtable='s' writeDefault=False pre-existing=True", key=expected_key("components", "n", "s", "val")))
    res.bounds["part1_definitions"] = n


# ------------------------------------------------------------------------------------------ part 2


def part2(res, flat_len):
    tt = type_table()
    inst = env.nt()
    for tname in tt:
        _src, default, alpha, ts = tt[tname]
        vals = [alpha[0], alpha[1], alpha[2]]
        nvals = [norm(v) for v in vals]
        if nvals[0] == nvals[2]:
            vals = vals[:2]
        for owner in ("components", "autonomous", "components/sub"):
            subt = None
            if owner.endswith("/sub"):
                if tname not in ("int", "str", "bools", "struct"):
                    continue
                owner, subt = "components", "cfg"

            def fresh(owner=owner, subt=subt):
                env.advance_us(10)
                cls, _ = build_class(tname, sub=subt)
                objs = [cls(), cls()]
                names = [env.fresh_name("left"), env.fresh_name("right")]
                for o, nm in zip(objs, names):
                    setup(o, owner, nm)
                pubs = [publish(typed_topic(inst, expected_key(owner, nm, subt, "val"), tname), tname) for nm in names]
                subs = [subscribe(typed_topic(inst, expected_key(owner, nm, subt, "val"), tname), tname, default) for nm in names]
                return objs, pubs, subs

            def apply(op, objs, pubs, model):
                kind, i, v = op
                env.advance_us(1)
                if kind == "py":
                    objs[i].val = v
                else:
                    pubs[i].set(v)
                model[i] = norm(v)

            def check(objs, subs, model, hist):
                res.checks += 1
                for i in (0, 1):
                    py = norm(objs[i].val)
                    ntv = norm(subs[i].get())
                    oth = norm(objs[i].other)
                    if py != model[i] or ntv != model[i]:
                        last = hist[-1] if hist else None
                        stale = "python-read" if py != model[i] else "nt-read"
                        cross = "shared-between-instances" if last and last[1] != i else "stale-or-lost-write"
                        res.violation(f"{cross}:{stale}:after-{last[0] if last else 'setup'}-write", f"{tname} ({owner}) after {hist}: instance {i} attribute reads {py!r}, NT subscriber {ntv!r}, latest write {model[i]!r}", dict(engine="nt", part=2, type=tname, owner=owner, history=[[k, i2, repr(v)] for k, i2, v in hist]))
                        return False
                    if oth != 0.125:
                        res.violation("other-tunable-disturbed", f"{tname} ({owner}) after {hist}: unrelated tunable reads {oth!r}", dict(engine="nt", part=2, type=tname, owner=owner, history=[[k, i2, repr(v)] for k, i2, v in hist]))
                        return False
                return True

            ops = [(k, i, v) for k in ("py", "nt") for i in (0, 1) for v in vals]
            try:
                _o, _p, _s = fresh()
                for x in _s + _p:
                    x.close()
            except core.HarnessError:
                raise
            except Exception as e:  # noqa
                res.violation(f"setup-raises:{tname}", f"{tname} ({owner}): setup_tunables raised {type(e).__name__}: {str(e)[:200]}", dict(engine="nt", part=2, type=tname, owner=owner, history=[]))
                continue
            # closed exploration: every model state (value of left x value of right), reached by python writes and
            # by NT writes, x every operation
            states = set()
            for how in ("py", "nt"):
                for v0 in vals:
                    for v1 in vals:
                        for op in ops:
                            objs, pubs, subs = fresh()
                            model = [norm(default), norm(default)]
                            hist = []
                            ok = check(objs, subs, model, hist)
                            for step in ((how, 0, v0), (how, 1, v1), op):
                                if not ok:
                                    break
                                apply(step, objs, pubs, model)
                                hist.append(step)
                                ok = check(objs, subs, model, hist)
                            states.add((how, repr(norm(v0)), repr(norm(v1))))
                            res.transitions += 1
                            res.executions += 1
                            for s in subs:
                                s.close()
                            for p in pubs:
                                p.close()
                            res.outcome(core.stable_hash([tname, owner, model]))
            res.states += len(states)
            # flat: every operation sequence up to flat_len from fresh instances
            if owner == "components":
                for ln in range(1, flat_len + 1):
                    for seq in itertools.product(ops, repeat=ln):
                        if ln > 2 and any(norm(o[2]) == nvals[0] for o in seq[1:]) and tname not in ("int", "float", "str"):
                            continue  # keep the flat part affordable for the array / struct types
                        objs, pubs, subs = fresh()
                        model = [norm(default), norm(default)]
                        hist = []
                        for step in seq:
                            apply(step, objs, pubs, model)
                            hist.append(step)
                            if not check(objs, subs, model, hist):
                                break
                        res.executions += 1
                        res.transitions += ln
                        for s in subs:
                            s.close()
                        for p in pubs:
                            p.close()
    res.sample(dict(part=2, type="int", owner="components", history=[["py", 0, 7], ["nt", 1, -3], ["nt", 0, 100]], expected_reads={"left": 100, "right": -3}))
    part2_sparse_reads(res, flat_len)
    part2_late_sibling(res)


def part2_sparse_reads(res, flat_len):
    """Reads are operations of their own here (the closed exploration above reads everything after every write, which
    could mask a defect that depends on *not* reading in between): every sequence of the stated length over
    {python write v1/v2, NT write v1/v2, python read, NT read, python write to the sibling instance}."""
    tt = type_table()
    inst = env.nt()
    depth = 5 if flat_len <= 2 else 6
    for tname in ("int", "str", "floats"):
        _src, default, alpha, ts = tt[tname]
        v1, v2 = alpha[1], alpha[2]
        ops = [("pyw", 0, v1), ("pyw", 0, v2), ("ntw", 0, v1), ("ntw", 0, v2), ("pyr", 0, None), ("ntr", 0, None), ("pyw", 1, v1)]
        for seq in itertools.product(range(len(ops)), repeat=depth):
            env.advance_us(10)
            cls, _ = build_class(tname)
            objs = [cls(), cls()]
            names = [env.fresh_name("sl"), env.fresh_name("sr")]
            for o, nm in zip(objs, names):
                setup(o, "components", nm)
            pubs = [publish(typed_topic(inst, expected_key("components", nm, None, "val"), tname), tname) for nm in names]
            subs = [subscribe(typed_topic(inst, expected_key("components", nm, None, "val"), tname), tname, default) for nm in names]
            model = [norm(default), norm(default)]
            hist = []
            res.executions += 1
            res.transitions += depth
            for oi in list(seq) + [4, 5]:  # always finish with both reads of instance 0
                kind, i, v = ops[oi]
                env.advance_us(1)
                hist.append((kind, i, repr(v) if v is not None else None))
                if kind == "pyw":
                    objs[i].val = v
                    model[i] = norm(v)
                elif kind == "ntw":
                    pubs[i].set(v)
                    model[i] = norm(v)
                else:
                    got = norm(objs[i].val) if kind == "pyr" else norm(subs[i].get())
                    res.checks += 1
                    if got != model[i]:
                        res.violation(f"stale-or-lost-write:{'python-read' if kind == 'pyr' else 'nt-read'}:sparse-reads", f"{tname}: after {hist} the {'attribute' if kind == 'pyr' else 'NT subscriber'} reads {got!r}, latest write {model[i]!r}", dict(engine="nt", part=2, type=tname, owner="components", history=[list(h) for h in hist]))
                        break
            for x in subs + pubs:
                x.close()
    res.bounds["part2_sparse_read_sequence_length"] = depth


def part2_late_sibling(res):
    """A second instance of a class is set up after the first one was already used (assigned from python / from NT)."""
    tt = type_table()
    inst = env.nt()
    for tname in ("int", "str", "bools", "struct"):
        _src, default, alpha, ts = tt[tname]
        for wd, used, pre in itertools.product((True, False), ("none", "py", "nt", "py+read"), (False, True)):
            env.advance_us(10)
            cls, _ = build_class(tname, wd=wd)
            a = cls()
            n1, n2 = env.fresh_name("fa"), env.fresh_name("fb")
            setup(a, "components", n1)
            pub1 = publish(typed_topic(inst, expected_key("components", n1, None, "val"), tname), tname)
            env.advance_us(5)
            if used in ("py", "py+read"):
                a.val = alpha[2]
                if used == "py+read":
                    _ = a.val
            elif used == "nt":
                pub1.set(alpha[2])
            prepub = None
            if pre:
                prepub = publish(typed_topic(inst, expected_key("components", n2, None, "val"), tname), tname)
                env.advance_us(5)
                prepub.set(alpha[1])
            env.advance_us(5)
            b = cls()
            setup(b, "components", n2)
            exp = default if (wd or not pre) else alpha[1]
            got = b.val
            res.executions += 1
            res.checks += 1
            if norm(got) != norm(exp):
                res.violation(f"setup-value:late-sibling:writeDefault={wd}:pre={pre}", f"{tname}: first instance used ({used}), then a second instance of the same class set up under another name with writeDefault={wd}, pre-existing={pre}: reads {got!r}, expected {exp!r}", dict(engine="nt", part=2, type=tname, owner="components", history=[["late-sibling", used, wd, pre]]))
            exp_a = {"none": default, "py": alpha[2], "py+read": alpha[2], "nt": alpha[2]}[used]
            if norm(a.val) != norm(exp_a):
                res.violation("shared-between-instances:late-sibling", f"{tname}: setting up a second instance changed the first one's value to {a.val!r} (expected {exp_a!r})", dict(engine="nt", part=2, type=tname, owner="components", history=[["late-sibling", used, wd, pre]]))
            pub1.close()
            if prepub is not None:
                prepub.close()


# ------------------------------------------------------------------------------------------ part 3: through MagicRobot


def part3(res):
    from mc import robotdrv as R

    R.install()
    comp_src = "    gain = tunable(2.5)\n    names = tunable(['a'], subtable='cfg')\n    keep = tunable(4, writeDefault=False)\n"
    mode_extra = "    import magicbot as _m\n    speed = _m.tunable(0.75)\n    label = _m.tunable('go', subtable='ui')\n"
    lay = R.layout("tunables", [R.comp("c0", extra_src=comp_src), R.comp("c1", extra_src=comp_src)], auto=True, robot_extra="    limit = tunable(12)\n    flag = tunable(False, subtable='dbg')\n")
    seen = {}

    def hook(site, obj, rec, n):
        if site == "c0.execute" and n == 1:
            obj.gain = 9.5
        if site == "robotPeriodic" and n >= 2:
            seen["limit"] = obj.limit
            seen["c0.gain"] = obj.c0.gain
            seen["c1.gain"] = obj.c1.gain

    def observe(robot, k, inst):
        out = {}
        for p in ["/components/c0/gain", "/components/c1/gain", "/components/c0/cfg/names", "/components/c0/keep", "/autonomous/plain/speed", "/autonomous/plain/ui/label", "/robot/limit", "/robot/dbg/flag"]:
            v = inst.getEntry(p).getValue()
            out[p] = (norm(v.value()) if v.isValid() else None, inst.getTopic(p).getTypeString())
        return out

    life = R.run_life(lay, "dtt", hooks=[hook], observe=observe, mode_extra=mode_extra)
    res.executions += 1
    res.checks += 1
    rp = dict(engine="nt", part=3)
    if life.end is None or life.end[0] != "exit":
        res.violation("robot-startup", f"robot with tunables ended with {life.end!r}", rp)
        return
    first, last = life.steps[0]["obs"], life.steps[2]["obs"]
    exp_first = {"/components/c0/gain": (2.5, "double"), "/components/c1/gain": (2.5, "double"), "/components/c0/cfg/names": (["a"], "string[]"), "/components/c0/keep": (4.0, "int"), "/autonomous/plain/speed": (0.75, "double"), "/autonomous/plain/ui/label": ("go", "string"), "/robot/limit": (12.0, "int"), "/robot/dbg/flag": (False, "boolean")}
    for p, e in exp_first.items():
        if tuple(first.get(p, (None, None))) != e:
            res.violation(f"robot-key:{p.split('/')[1]}", f"after MagicRobot start-up {p} holds {first.get(p)!r}, expected {e!r}", rp)
    if last["/components/c0/gain"][0] != 9.5 or last["/components/c1/gain"][0] != 2.5 or seen.get("c0.gain") != 9.5 or seen.get("c1.gain") != 2.5:
        res.violation("shared-between-instances:robot", f"c0.gain was set to 9.5: NT c0={last['/components/c0/gain']} c1={last['/components/c1/gain']}, attributes {seen}", rp)
    res.sample(dict(part=3, topics_after_startup={k: list(v) for k, v in first.items()}))


def main(tier, seed):
    t0 = time.time()
    core.bind_repo()
    env.init()
    res = core.Result()
    part1(res)
    part2(res, 2 if tier == "quick" else 3)
    part3(res)
    res.bounds["part2_flat_sequence_length"] = 2 if tier == "quick" else 3
    res.bounds["types"] = list(type_table())
    rule = (
        "part 1: every point of {15 tunable definitions: bool/int/float/str/bytes/struct/arrays of these/three type-hinted empty-sequence spellings/tuple} x "
        "{component, autonomous mode, robot} x {no subtable, subtable} x writeDefault x {no value, pre-existing value of the same type}: key, topic type, value "
        "after setup. part 2: per type and owner kind, two instances of one class under two names; closed explicit-state exploration: every model state "
        "(value_left x value_right, reached by python writes and by NT-client writes) x every operation {python write, NT write} x instance x value, all four "
        "readers (attribute and independent subscriber of both instances) checked after every step, plus every operation sequence up to the stated length "
        "from fresh instances. part 3: the same keys through a real MagicRobot start-up and loop. states = model states per type, transitions = operations applied."
    )
    return core.finish(PID, tier, seed, res, time.time() - t0, rule, ["NetworkTables is the in-process default instance; an 'NT client' is an independent publisher/subscriber on the same instance", "each write happens at a strictly later simulated time than the previous one"])


def replay(path):
    core.bind_repo()
    env.init()
    r = json.load(open(path))["replay"]
    print(r)
    res = core.Result()
    if r.get("part") == 1:
        part1(res)
    elif r.get("part") == 2:
        part2(res, 2)
    else:
        part3(res)
    for k, v in res.violations.items():
        print(k, v["msg"])
    return 1 if res.violations else 0
