"""C08 - variable injection delivers exactly the named robot object or fails at start-up.  `inject` engine:
exhaustive product family of robot / component / autonomous-mode definitions, each built as a real MagicRobot and
run through robotInit(), against an independent injection model.  DESIGN.md section 4."""
import itertools
import json
import sys
import time

from mc import core
from mc import robotdrv as R

PID = "C08"

KINDS = {
    # annotation source, right value, subclass value or None, wrong value, falsy value or None
    "cls": ("T", "T()", "TS()", "W()", None),
    "int": ("int", "5", "True", "'five'", "0"),
    "str": ("str", "'s'", None, "5", "''"),
    "generic": ("list[int]", "[1, 2]", None, "(1, 2)", "[]"),
    "tuple": ("tuple", "(1,)", None, "[1]", "()"),
    # robot objects that happen to be callable: a class stored as a value, an instance with __call__
    "klass": ("type", "TS", None, "5", None),
    "callable": ("CallT", "CallT()", None, "W()", None),
}
SAME = ["absent", "right", "subclass", "wrong", "falsy", "none"]
PREF = ["absent", "right", "wrong"]
WHERE = ["class", "createObjects", "base-class", "base-createObjects"]
SIDE = ["novalue", "preset", "init", "private", "inherited", "inherited-preset", "also-ctor-param", "mixin-second-base", "redeclared-narrower"]
ENTITY = ["attr", "ctor", "mode"]

PRELUDE = ""


class T:
    pass


class TS(T):
    pass


class W:
    pass


class CallT:
    def __call__(self):
        return 1


import builtins as _b

_b._vT = T
_b._vCallT = CallT


def value_src(kind, role):
    ann, right, sub, wrong, falsy = KINDS[kind]
    return {"right": right, "subclass": sub, "wrong": wrong, "falsy": falsy, "none": "None"}[role]


def valid(sc):
    k = KINDS[sc["kind"]]
    if sc["same"] == "subclass" and k[2] is None:
        return False
    if sc["same"] == "falsy" and k[4] is None:
        return False
    if sc["entity"] != "attr" and sc["side"] != "novalue":
        return False
    if sc["entity"] == "ctor" and sc["kind"] == "generic":
        return True
    return True


def scenarios():
    out = []
    for entity, kind, same, pref, where, side in itertools.product(ENTITY, KINDS, SAME, PREF, WHERE, SIDE):
        sc = dict(group="main", entity=entity, kind=kind, same=same, pref=pref, where=where, side=side)
        if valid(sc):
            out.append(sc)
    # component-to-component requests in both declaration orders, attribute and constructor injection, base robot
    for order, how, base in itertools.product(("earlier", "later"), ("attr", "ctor"), (False, True)):
        for typ in ("right", "wrong"):
            out.append(dict(group="comp", order=order, how=how, base=base, typ=typ))
    # two components of the very same class; the constructor presets the requested attribute for one instance only
    for which in ("first", "second", "both", "none"):
        out.append(dict(group="sameclass", preset=which))
    # two requested attributes: each of {ok, absent, wrong}
    for a, b in itertools.product(("ok", "absent", "wrong"), repeat=2):
        out.append(dict(group="two", a=a, b=b))
    return out


def build_source(sc):
    """Returns (source, requester name used for the '<name>_<attr>' prefix)."""
    src = PRELUDE
    if sc["group"] == "main":
        ann = KINDS[sc["kind"]][0]
        attr = "_dep" if sc["side"] == "private" else "dep"
        cname = "plain" if sc["entity"] == "mode" else "c0"
        robot_class_attrs = ""
        create = "        _reg['robot'] = self\n"
        def put(name, role):
            nonlocal robot_class_attrs, create
            v = value_src(sc["kind"], role)
            if sc["where"] in ("class", "base-class"):
                robot_class_attrs += f"    {name} = _mk({name!r}, {v})\n"
            else:
                create += f"        self.{name} = _mk({name!r}, {v})\n"
        if sc["same"] != "absent":
            put(attr, sc["same"])
        if sc["pref"] != "absent":
            put(f"{cname}_{attr}", sc["pref"])
        # the requesting entity
        if sc["entity"] == "attr":
            body = ""
            if sc["side"] == "inherited":
                src += f"class CBase:\n    {attr}: {ann}\n"
                src += "class K_c0(CBase):\n"
            elif sc["side"] == "mixin-second-base":
                # the annotation comes from a mix-in that is not the first base of the component class
                src += f"class CBase:\n    pass\nclass CMix:\n    {attr}: {ann}\n"
                src += "class K_c0(CBase, CMix):\n"
            elif sc["side"] == "redeclared-narrower":
                # a base class annotates the attribute loosely (object); the component class re-declares it with the real type,
                # which is the one that counts (typing.get_type_hints: the most derived annotation wins)
                src += f"class CBase:\n    {attr}: object\n"
                src += "class K_c0(CBase):\n"
                body += f"    {attr}: {ann}\n"
            elif sc["side"] == "inherited-preset":
                # the value is preset on a base class of the component (found through the MRO, not in the class itself)
                src += f"class CRoot:\n    {attr}: {ann} = _mk('preset', {value_src(sc['kind'], 'right')})\nclass CBase(CRoot):\n    pass\n"
                src += "class K_c0(CBase):\n"
            elif sc["side"] == "also-ctor-param":
                # the same name is a constructor parameter (not stored by the constructor) and an annotated attribute
                src += "class K_c0:\n"
                body += f"    {attr}: {ann}\n    def __init__(self, {attr}: {ann}):\n        self.seen_by_ctor = {attr}\n"
            else:
                src += "class K_c0:\n"
                body += f"    {attr}: {ann}\n" if sc["side"] != "preset" else f"    {attr}: {ann} = _mk('preset', {value_src(sc['kind'], 'right')})\n"
            if sc["side"] == "init":
                body += f"    def __init__(self):\n        self.{attr} = _mk('init', {value_src(sc['kind'], 'right')})\n"
            body += "    def setup(self):\n        _cb('c0.setup', self)\n    def execute(self):\n        pass\n"
            src += body
        elif sc["entity"] == "ctor":
            src += f"class K_c0:\n    def __init__(self, {attr}: {ann}):\n        self.got = {attr}\n    def setup(self):\n        _cb('c0.setup', self)\n    def execute(self):\n        pass\n"
        else:
            src += "class K_c0:\n    def setup(self):\n        _cb('c0.setup', self)\n    def execute(self):\n        pass\n"
        src += "class K_first:\n    def setup(self):\n        _cb('first.setup', self)\n    def execute(self):\n        pass\n"
        if sc["where"].startswith("base-"):
            # the robot objects live on a base robot class (class attributes, or its createObjects)
            src += "class RB(magicbot.MagicRobot):\n" + robot_class_attrs + "    def createObjects(self):\n" + create
            src += "class R(RB):\n    first: K_first\n    c0: K_c0\n"
        else:
            src += "class R(magicbot.MagicRobot):\n    first: K_first\n    c0: K_c0\n" + robot_class_attrs + "    def createObjects(self):\n" + create
        mann = {"T": "builtins._vT", "CallT": "builtins._vCallT"}.get(ann, ann)
        mode_extra = f"    {attr}: {mann}\n    def setup(self):\n        import builtins\n        builtins._verif_cb('mode.setup', self)\n" if sc["entity"] == "mode" else ""
        return src, cname, mode_extra
    if sc["group"] == "comp":
        # c0 requests component 'peer'; peer is declared before or after c0
        peer_t = "K_peer" if sc["typ"] == "right" else "W"
        if sc["how"] == "attr":
            src += f"class K_peer:\n    def execute(self):\n        pass\nclass K_c0:\n    peer: {peer_t}\n    def setup(self):\n        _cb('c0.setup', self)\n    def execute(self):\n        pass\n"
        else:
            src += f"class K_peer:\n    def execute(self):\n        pass\nclass K_c0:\n    def __init__(self, peer: {peer_t}):\n        self.got = peer\n    def setup(self):\n        _cb('c0.setup', self)\n    def execute(self):\n        pass\n"
        decl = ["    peer: K_peer\n", "    c0: K_c0\n"]
        if sc["order"] == "later":
            decl.reverse()
        if sc["base"]:
            src += "class RB(magicbot.MagicRobot):\n" + decl[0] + "    def createObjects(self):\n        _reg['robot'] = self\nclass R(RB):\n" + decl[1]
        else:
            src += "class R(magicbot.MagicRobot):\n" + decl[0] + decl[1] + "    def createObjects(self):\n        _reg['robot'] = self\n"
        return src, "c0", ""
    if sc["group"] == "sameclass":
        src += ("class K_c0:\n    dep: T\n    def __init__(self, fixed: bool):\n        if fixed:\n            self.dep = _mk('preset-' + str(len([k for k in _reg if k.startswith('preset')])), T())\n"
                "    def setup(self):\n        _cb(self.logger.name + '.setup', self)\n    def execute(self):\n        pass\n")
        p1 = sc["preset"] in ("first", "both")
        p2 = sc["preset"] in ("second", "both")
        src += ("class R(magicbot.MagicRobot):\n    c0: K_c0\n    c1: K_c0\n    def createObjects(self):\n        _reg['robot'] = self\n"
                f"        self.dep = _mk('dep', T())\n        self.c0_fixed = {p1}\n        self.c1_fixed = {p2}\n")
        return src, "c0", ""
    # two attributes
    src += "class K_c0:\n    a: T\n    b: T\n    def setup(self):\n        _cb('c0.setup', self)\n    def execute(self):\n        pass\n"
    create = "        _reg['robot'] = self\n"
    for n in ("a", "b"):
        if sc[n] == "ok":
            create += f"        self.{n} = _mk({n!r}, T())\n"
        elif sc[n] == "wrong":
            create += f"        self.{n} = _mk({n!r}, W())\n"
    src += "class R(magicbot.MagicRobot):\n    c0: K_c0\n    def createObjects(self):\n" + create
    return src, "c0", ""


MISSING = "<missing>"


def model(sc):
    """Independent expectation: ('error',) | ('inject', registry role) | ('untouched', role or MISSING)."""
    if sc["group"] == "main":
        if sc["entity"] == "attr" and sc["side"] == "private":
            return ("untouched", MISSING)
        if sc["entity"] == "attr" and sc["side"] in ("preset", "inherited-preset"):
            return ("untouched", "preset")
        if sc["entity"] == "attr" and sc["side"] == "init":
            return ("untouched", "init")
        cname = "plain" if sc["entity"] == "mode" else "c0"
        # which robot object is the candidate
        if sc["same"] not in ("absent", "none"):
            cand, role = "dep", sc["same"]
        elif sc["pref"] != "absent":
            cand, role = f"{cname}_dep", sc["pref"]
        else:
            return ("error",)
        if role == "wrong":
            return ("error",)
        return ("inject", cand)
    if sc["group"] == "comp":
        if sc["typ"] == "wrong":
            return ("error",)
        if sc["how"] == "ctor" and sc["order"] == "later":
            return ("error",)  # a later-declared component does not exist yet when c0 is constructed
        return ("inject", "component:peer")
    if sc["group"] == "sameclass":
        return ("sameclass",)
    if sc["a"] == "ok" and sc["b"] == "ok":
        return ("inject2",)
    return ("error",)


def run_scenario(sc, res):
    import magicbot
    import wpilib.simulation as ws

    R.install()
    reg = {}

    def mk(role, v):
        reg[role] = v
        return v

    snaps = {}

    def hook(site, obj, rec, n):
        rob = reg.get("robot")
        if site.endswith(".setup") and rob is not None:
            c0 = getattr(rob, "c0", None)
            tgt = c0
            if sc["group"] == "main" and sc["entity"] == "mode":
                tgt = next(iter(rob._automodes.modes.values()), None) if hasattr(rob, "_automodes") else None
            if sc["group"] == "main":
                name = "_dep" if sc["side"] == "private" else ("got" if sc["entity"] == "ctor" else "dep")
                snaps.setdefault(site, getattr(tgt, name, MISSING) if tgt is not None else MISSING)
            elif sc["group"] == "comp":
                snaps.setdefault(site, getattr(tgt, "got" if sc["how"] == "ctor" else "peer", MISSING))
            elif sc["group"] == "sameclass":
                snaps.setdefault(site, (getattr(getattr(rob, "c0", None), "dep", MISSING), getattr(getattr(rob, "c1", None), "dep", MISSING)))
            else:
                snaps.setdefault(site, (getattr(tgt, "a", MISSING), getattr(tgt, "b", MISSING)))

    R._G.log = []
    R._G.cnt.clear()
    R._G.fault = {}
    R._G.hooks = [hook]
    src, cname, mode_extra = build_source(sc)
    g = dict(magicbot=magicbot, _cb=R.cb, _mk=mk, _reg=reg, T=T, TS=TS, W=W, CallT=CallT)
    lay = R.layout("inj", [], auto=bool(mode_extra), modes=("plain",))
    pkgroot = None
    R._purge_auto_modules()
    raised = None
    robot = None
    try:
        if mode_extra:
            pkgroot = R.write_auto_package(lay, mode_extra)
            sys.path.insert(0, pkgroot)
        try:
            exec(src, g)
            robot = g["R"]()
            robot.robotInit()
        except core.HarnessError:
            raise
        except Exception as e:  # noqa
            raised = e
        exp = model(sc)
        res.executions += 1
        res.checks += 1
        rp = dict(engine="inject", scenario=sc, source=src, mode_extra=mode_extra)
        desc = json.dumps(sc, sort_keys=True)
        kindsig = sc["group"] + (":" + sc["entity"] if sc["group"] == "main" else "")
        if exp[0] == "error":
            if raised is None:
                res.violation(f"started-with-bad-dependency:{kindsig}", f"{desc}: start-up succeeded, snapshots {snaps}", rp)
            elif type(raised).__name__ != "MagicInjectError":
                res.violation(f"wrong-error-class:{kindsig}", f"{desc}: raised {type(raised).__name__}: {raised}", rp)
        else:
            if raised is not None:
                res.violation(f"spurious-startup-error:{kindsig}", f"{desc}: raised {type(raised).__name__}: {raised}", rp)
            else:
                if exp[0] == "sameclass":
                    pre = sorted(k for k in reg if k.startswith("preset"))
                    it = iter(pre)
                    want = tuple((reg[next(it)] if sc["preset"] in (w, "both") else reg.get("dep")) for w in ("first", "second"))
                elif exp[0] == "inject2":
                    want = (reg.get("a"), reg.get("b"))
                elif exp[0] == "untouched":
                    want = MISSING if exp[1] == MISSING else reg.get(exp[1])
                elif exp[1] == "component:peer":
                    want = getattr(robot, "peer", MISSING)
                else:
                    want = reg.get(exp[1])
                if not snaps:
                    res.violation(f"setup-not-run:{kindsig}", f"{desc}: no setup() observed", rp)
                for site, got in snaps.items():
                    same = (got is want) if not isinstance(want, tuple) or exp[0] not in ("inject2", "sameclass") else (got[0] is want[0] and got[1] is want[1])
                    if not same:
                        what = "not-injected-before-setup" if got is MISSING or got == MISSING else ("wrong-object" if exp[0] != "untouched" else "value-overwritten")
                        res.violation(f"{what}:{kindsig}", f"{desc}: in {site} the attribute is {got!r}, expected {want!r} (role {exp[1:] })", rp)
                        break
        res.outcome(core.stable_hash([exp, type(raised).__name__ if raised else None]))
    finally:
        if pkgroot:
            sys.path.remove(pkgroot)
        R._purge_auto_modules()
        R._G.hooks = []
        robot = None
        g.clear()
        reg.clear()
        snaps.clear()
        R.reset_world()


def work(item):
    core.bind_repo()
    res = core.Result()
    for sc in item["scenarios"]:
        run_scenario(sc, res)
    res.sample(dict(scenario=item["scenarios"][0], expectation=list(model(item["scenarios"][0])), source=build_source(item["scenarios"][0])[0]))
    return res


def main(tier, seed):
    t0 = time.time()
    scs = scenarios()
    items = [dict(scenarios=scs[i:i + 40]) for i in range(0, len(scs), 40)]
    res = core.Result()
    for d in core.parallel("mc.props.c08", "work", items, seed=seed):
        res.merge(d)
    res.states = len(scs)
    res.transitions = len(scs)
    res.bounds.update(scenarios=len(scs), domains=dict(entity=ENTITY, annotation=list(KINDS), same_name=SAME, prefixed_name=PREF, robot_attribute_lives=WHERE, component_side=SIDE))
    rule = (
        "complete product family: requesting entity {component attribute, component constructor parameter, autonomous mode attribute} x annotation "
        "{class, int, str, list[int] generic alias, tuple} x robot object under the same name {absent, right type, subclass instance, wrong type, falsy, None} x "
        "robot object under '<name>_<attr>' {absent, right, wrong type} x {robot class attribute, set in createObjects} x component side {no value, preset on "
        "the class, assigned in __init__, private name, annotation inherited from a base class}; plus component-to-component requests in both declaration "
        "orders (attribute / constructor, components on a base robot) and two-attribute components. Each point is built as a real MagicRobot and run through "
        "robotInit(); from inside every setup() the attribute must already hold (by identity) the object the independent model names, or start-up must fail "
        "with MagicInjectError. states = definitions enumerated."
    )
    return core.finish(PID, tier, seed, res, time.time() - t0, rule, ["robot methods and tunables as injection sources are unspecified and not in the family"])


def replay(path):
    core.bind_repo()
    r = json.load(open(path))["replay"]
    res = core.Result()
    print(r["source"])
    run_scenario(r["scenario"], res)
    for k, v in res.violations.items():
        print(k, v["msg"])
    return 1 if res.violations else 0
