"""C03 - state functions get correct tm, state_tm, initial_call in any parameter order.
Shared sm exploration plus all 16 ordered parameter subsets on each of the three decorators."""
import copy

from mc import sm_engine as E

PID = "C03"


def sig_shapes():
    out = []
    bases = [s for s in E.curated_shapes() if s["name"] in ("tdflt", "mf")]
    for b in bases:
        for i, sig in enumerate(E.ALL_SIGS):
            sh = copy.deepcopy(b)
            sh["name"] = f"{b['name']}-sig{i}"
            for st in sh["states"]:
                st["sig"] = tuple(sig)
            out.append(sh)
    return out


def mixed_shapes():
    """Two states of one machine declaring the same parameter subset in different orders (every ordered pair)."""
    import itertools

    out = []
    n = 0
    for r in (2, 3):
        for subset in itertools.combinations(("tm", "state_tm", "initial_call"), r):
            perms = list(itertools.permutations(subset))
            for p1, p2 in itertools.permutations(perms, 2):
                n += 1
                out.append(E.shape(f"mixsig{n}", [E.S("a", "timed", first=True, dur=1, next="b", sig=p1), E.S("b", sig=p2), E.S("d", "default", sig=p2[::-1])]))
    return out


def main(tier, seed):
    if tier == "quick":
        shapes = E.curated_shapes()
        p = dict(nops=3, maxdev=1, bfs_depth=4, probe_every=7, timing_depth=24)
    else:
        fam = E.family_shapes()
        shapes = E.curated_shapes() + fam
        p = dict(nops=4, maxdev=2, bfs_depth=8, probe_every=11, timing_depth=30, light_names=[s["name"] for s in fam], light_nops=3, light_bfs=3, light_timing=8)
    sigs = sig_shapes() + mixed_shapes()
    return E.run_check(PID, tier, seed, shapes=shapes + sigs, sig_names={s["name"] for s in sigs}, **p)


def replay(path):
    return E.replay(path)
