"""C16 - NotifierDelay keeps the loop on a fixed time grid without drift.  `notifier` engine: the real
NotifierDelay (real HAL notifier) is driven in a worker thread under a baton through every loop-body-duration
schedule up to a bound.  DESIGN.md section 4."""
import itertools
import json
import queue
import threading
import time

from mc import core

PID = "C16"
PERIODS = [(0.001, 1000), (0.005, 5000), (0.02, 20000), (1 / 64, 15625),
           # whole-microsecond periods whose binary floating-point product with 1e6 falls just below the integer
           (1009 / 1e6, 1009), (15641 / 1e6, 15641)]
PATIENCE = 6.0
EARLY_POLL = 0.002  # seconds the harness gives a wait() that must block to (wrongly) return


def bodies(P):
    return [0, P // 2, P - 1, P, P + 1, (5 * P) // 2]


class Rig:
    """One worker thread executing commands: ('wait',) -> calls delay.wait(), ('stop',)."""

    def __init__(self):
        self.cmd = queue.Queue()
        self.ev = queue.Queue()
        self.delay = None
        self.th = threading.Thread(target=self.body, daemon=True)
        self.th.start()

    def body(self):
        import wpilib

        while True:
            c = self.cmd.get()
            if c[0] == "stop":
                return
            self.ev.put(("enter", wpilib.RobotController.getFPGATime()))
            try:
                self.delay.wait()
                self.ev.put(("ret", wpilib.RobotController.getFPGATime()))
            except BaseException as e:  # noqa
                self.ev.put(("exc", e))

    def get(self, timeout):
        import hal.simulation as hs

        waited = 0.0
        while waited < timeout:
            try:
                return self.ev.get(timeout=min(0.2, timeout))
            except queue.Empty:
                waited += 0.2
                hs.stepTimingAsync(0)  # re-issue the wake-up (HAL sim can miss one; the clock does not move)
        return ("hang", None)


def run_schedule(period, P, sched, offset, release, res):
    """Returns list of (sig, msg)."""
    import hal.simulation as hs
    import wpilib
    from robotpy_ext.misc.precise_delay import NotifierDelay

    out = []
    now = wpilib.RobotController.getFPGATime
    hs.stepTimingAsync(offset + 1)
    n0 = hs.getNumNotifiers()
    rig = Rig()
    t0 = now()
    d = NotifierDelay(period)
    rig.delay = d
    obs = []
    try:
        if hs.getNumNotifiers() != n0 + 1:
            out.append(("notifier-not-allocated", f"getNumNotifiers {n0} -> {hs.getNumNotifiers()}"))
        for k, b in enumerate(sched, start=1):
            if b:
                hs.stepTimingAsync(b)
            if release == "with" and k in (1, 3):
                # the with-block is entered some time after the object was created (and entered again, nested, later on):
                # the grid stays anchored at the creation time
                if d.__enter__() is not d:
                    out.append(("enter-returns-other-object", f"__enter__() before wait #{k}"))
            grid = t0 + k * P
            alarm = hs.getNextNotifierTimeout()
            if alarm != grid:
                out.append((f"alarm-off-grid:{'after-overrun' if any(x > P for x in sched[:k-1]) else 'no-overrun'}", f"before wait #{k}: alarm at {alarm - t0} us after t0, expected {k * P} (bodies {sched[:k]}{', with-block entered after the first body' if release == 'with' else ''})"))
                return out  # the schedule is off the grid from here on; do not drive it further
            t_call = now()
            rig.cmd.put(("wait",))
            ev = rig.get(10)
            if ev[0] != "enter":
                out.append(("harness", f"unexpected event {ev}"))
                return out
            if t_call < grid:
                # must block: give a premature return the chance to show itself, then walk to the grid point
                try:
                    ev = rig.ev.get(timeout=EARLY_POLL)
                except queue.Empty:
                    ev = None
                if ev is None and grid - t_call > 1:
                    hs.stepTimingAsync(grid - t_call - 1)
                    try:
                        ev = rig.ev.get(timeout=EARLY_POLL)
                    except queue.Empty:
                        ev = None
                    if ev is None:
                        hs.stepTimingAsync(1)
                elif ev is None:
                    hs.stepTimingAsync(grid - t_call)
                if ev is None:
                    ev = rig.get(PATIENCE)
            else:
                ev = rig.get(PATIENCE)
            if ev[0] == "hang":
                out.append((f"wait-never-returns:{'late' if t_call >= grid else 'on-time'}", f"wait #{k} did not return although the clock reached {now() - t0} us after t0 (grid point {k * P}); bodies {sched[:k]}"))
                return out
            if ev[0] == "exc":
                out.append(("wait-raises", repr(ev[1])))
                return out
            t_ret = ev[1]
            expect = max(grid, t_call)
            res.visit(P, b, "late" if t_call > grid else ("exact" if t_call == grid else "early"), min(k, 4))
            obs.append((t_call - t0, t_ret - t0))
            if t_ret < grid:
                out.append((f"returned-before-grid-point:{'after-overrun' if any(x >= P for x in sched[:k-1]) else 'no-overrun'}", f"wait #{k} returned at {t_ret - t0} us after t0, before the grid point {k * P}; bodies {sched[:k]}"))
                return out
            if t_ret != expect:
                out.append(("returned-late", f"wait #{k} called at {t_call - t0} returned at {t_ret - t0}, expected {expect - t0}; bodies {sched[:k]}"))
                return out
        # release
        if release == "free":
            d.free()
        else:
            d.__exit__(None, None, None)
        if hs.getNumNotifiers() != n0:
            out.append((f"not-released:{release}", f"getNumNotifiers is {hs.getNumNotifiers()} after release, was {n0} before creation"))
        t_before = now()
        rig.cmd.put(("wait",))
        ev = rig.get(5)
        ev2 = rig.get(5) if ev[0] == "enter" else ev
        if ev2[0] != "ret" or now() != t_before:
            out.append((f"wait-after-release-blocks:{release}", f"wait() after {release} -> {ev2}"))
            return out
        res.outcome(core.stable_hash([P, obs]))
    finally:
        rig.cmd.put(("stop",))
        try:
            d.free()
        except Exception:
            pass
        rig.th.join(2)
    return out


def checked_wait(rig, t0, k, P, label):
    """One wait() that must block until t0 + k*P (the harness is at or before that instant).  No early polls."""
    import hal.simulation as hs
    import wpilib

    now = wpilib.RobotController.getFPGATime
    grid = t0 + k * P
    alarm = hs.getNextNotifierTimeout()
    if alarm != grid:
        return (f"alarm-off-grid:{label}", f"before wait #{k}: alarm at {alarm - t0} us after t0, expected {k * P}")
    t_call = now()
    rig.cmd.put(("wait",))
    ev = rig.get(10)
    if ev[0] != "enter":
        return ("harness", f"unexpected event {ev}")
    if grid > t_call:
        hs.stepTimingAsync(grid - t_call)
    ev = rig.get(PATIENCE)
    if ev[0] != "ret":
        return (f"wait-never-returns:{label}", f"wait #{k}: {ev}")
    if ev[1] != max(grid, t_call):
        kind = "returned-before-grid-point" if ev[1] < grid else "returned-late"
        return (f"{kind}:{label}", f"wait #{k} returned at {ev[1] - t0} us after t0, grid point {k * P}")
    return None


def run_long(period, P, n, body, res):
    """Many consecutive iterations with a constant short body: drift that only accumulates slowly."""
    import hal.simulation as hs
    import wpilib
    from robotpy_ext.misc.precise_delay import NotifierDelay

    hs.stepTimingAsync(1)
    rig = Rig()
    t0 = wpilib.RobotController.getFPGATime()
    d = NotifierDelay(period)
    rig.delay = d
    try:
        for k in range(1, n + 1):
            if body:
                hs.stepTimingAsync(body)
            r = checked_wait(rig, t0, k, P, "long-run")
            res.transitions += 1
            if r:
                return [(r[0], f"{r[1]} (iteration {k} of a run with constant body {body} us)")]
    finally:
        rig.cmd.put(("stop",))
        d.free()
        rig.th.join(2)
    return []


PAIR_VARIANTS = ["nothing", "free-again", "exit-again", "wait-on-released", "garbage-collect", "release-after-second-created", "overlapping-with-blocks", "free-while-waiting"]


def run_free_while_waiting(period, P, how, res):
    """free() / leaving the with-block from another thread while wait() is blocked: the waiter must come back at once
    (the clock does not move) and the notifier must be released."""
    import hal.simulation as hs
    import wpilib
    from robotpy_ext.misc.precise_delay import NotifierDelay

    now = wpilib.RobotController.getFPGATime
    hs.stepTimingAsync(7)
    n0 = hs.getNumNotifiers()
    rig = Rig()
    d = NotifierDelay(period)
    rig.delay = d
    try:
        hs.stepTimingAsync(P // 3)
        t = now()
        rig.cmd.put(("wait",))
        ev = rig.get(10)
        if ev[0] != "enter":
            return [("harness", f"unexpected event {ev}")]
        time.sleep(0.01)  # let the waiter reach the HAL
        d.free() if how == "free" else d.__exit__(None, None, None)
        ev = rig.get(PATIENCE)
        if ev[0] != "ret":
            return [("wait-never-returns:free-while-waiting", f"a wait() that was blocked when {how} was called from another thread -> {ev}")]
        if now() != t:
            return [("harness", "clock moved")]
        if hs.getNumNotifiers() != n0:
            return [("not-released:free-while-waiting", f"getNumNotifiers {hs.getNumNotifiers()} after release, {n0} before creation")]
    finally:
        rig.cmd.put(("stop",))
        try:
            d._expiry_time = 0  # lets a spinning waiter of a broken implementation end
            d.free()
        except Exception:
            pass
        rig.th.join(2)
    return []


def run_overlap(period, P, inner_first, res):
    """with A: with B: ... - leaving one with-block releases exactly that object, whatever the other one is doing."""
    import hal.simulation as hs
    import wpilib
    from robotpy_ext.misc.precise_delay import NotifierDelay

    now = wpilib.RobotController.getFPGATime
    hs.stepTimingAsync(5)
    n0 = hs.getNumNotifiers()
    ra, rb = Rig(), Rig()
    a = NotifierDelay(period)
    t0a = now()
    ra.delay = a
    a.__enter__()
    hs.stepTimingAsync(P // 5)
    b = NotifierDelay(period)
    t0b = now()
    rb.delay = b
    b.__enter__()
    try:
        first, second, rfirst, rsecond, t0second = (b, a, rb, ra, t0a) if inner_first else (a, b, ra, rb, t0b)
        first.__exit__(None, None, None)
        if hs.getNumNotifiers() != n0 + 1:
            return [("not-released:overlapping-with-blocks", f"after leaving one of two overlapping with-blocks getNumNotifiers is {hs.getNumNotifiers()}, expected {n0 + 1}")]
        t = now()
        rfirst.cmd.put(("wait",))
        ev = rfirst.get(5)
        ev = rfirst.get(5) if ev[0] == "enter" else ev
        if ev[0] != "ret" or now() != t:
            return [("wait-after-release-blocks:overlapping-with-blocks", f"wait() on the object whose with-block was left -> {ev}")]
        r = checked_wait(rsecond, t0second, 1, P, "overlapping-with-blocks")
        if r:
            return [r]
        second.__exit__(None, None, None)
        if hs.getNumNotifiers() != n0:
            return [("not-released:overlapping-with-blocks", f"getNumNotifiers {hs.getNumNotifiers()} after leaving both with-blocks, {n0} before")]
    finally:
        for rg in (ra, rb):
            rg.cmd.put(("stop",))
        for dd in (a, b):
            try:
                dd.free()
            except Exception:
                pass
        ra.th.join(2)
        rb.th.join(2)
    return []


def run_pair(period, P, variant, first_release, res):
    """Two NotifierDelay objects whose lifetimes touch: a released object must never disturb a later one."""
    import gc
    import hal.simulation as hs
    import wpilib
    from robotpy_ext.misc.precise_delay import NotifierDelay

    now = wpilib.RobotController.getFPGATime
    hs.stepTimingAsync(3)
    n0 = hs.getNumNotifiers()
    rig1, rig2 = Rig(), Rig()
    out = []
    d1 = NotifierDelay(period)
    t01 = now()
    rig1.delay = d1
    d2 = None
    try:
        r = checked_wait(rig1, t01, 1, P, "pair-first")
        if r:
            return [r]
        if variant != "release-after-second-created":
            d1.free() if first_release == "free" else d1.__exit__(None, None, None)
            if hs.getNumNotifiers() != n0:
                return [("not-released:pair", f"getNumNotifiers {hs.getNumNotifiers()} after releasing the first object, {n0} before")]
        hs.stepTimingAsync(P // 3)
        d2 = NotifierDelay(period)
        t02 = now()
        rig2.delay = d2
        if variant == "release-after-second-created":
            d1.free() if first_release == "free" else d1.__exit__(None, None, None)
        elif variant == "free-again":
            d1.free()
        elif variant == "exit-again":
            d1.__exit__(None, None, None)
        elif variant == "wait-on-released":
            t = now()
            rig1.cmd.put(("wait",))
            ev = rig1.get(5)
            ev = rig1.get(5) if ev[0] == "enter" else ev
            if ev[0] != "ret" or now() != t:
                return [("wait-after-release-blocks:pair", f"wait() on the released first object -> {ev}")]
        elif variant == "garbage-collect":
            rig1.delay = None
            d1 = None
            gc.collect()
        if hs.getNumNotifiers() != n0 + 1:
            return [(f"second-notifier-destroyed:{variant}", f"getNumNotifiers {hs.getNumNotifiers()} while the second object is alive, expected {n0 + 1}")]
        for k in (1, 2):
            hs.stepTimingAsync(P // 4)
            r = checked_wait(rig2, t02, k, P, f"pair-second:{variant}")
            res.transitions += 1
            if r:
                return [r]
        d2.free()
        if hs.getNumNotifiers() != n0:
            return [("not-released:pair", f"getNumNotifiers {hs.getNumNotifiers()} at the end, {n0} before")]
    finally:
        for rg in (rig1, rig2):
            rg.cmd.put(("stop",))
        for dd in (d1, d2):
            try:
                if dd is not None:
                    dd.free()
            except Exception:
                pass
        rig1.th.join(2)
        rig2.th.join(2)
    return out


def work_extra(item):
    core.bind_repo()
    import hal.simulation as hs

    hs.pauseTiming()
    res = core.Result()
    period, P = item["period"]
    if item["kind"] == "long":
        for body in (0, P // 2, P - 1):
            res.executions += 1
            res.checks += item["n"]
            for sig, msg in run_long(period, P, item["n"], body, res):
                if sig == "harness":
                    raise core.HarnessError(msg)
                res.violation(sig, f"period {P} us: {msg}", dict(engine="notifier", kind="long", period=period, P=P, n=item["n"], body=body))
        res.sample(dict(kind="long-run", period_us=P, iterations=item["n"], bodies_us=[0, P // 2, P - 1]))
    else:
        for variant in PAIR_VARIANTS:
            for rel in ("free", "with"):
                res.executions += 1
                res.checks += 4
                if variant == "overlapping-with-blocks":
                    found = run_overlap(period, P, rel == "with", res)
                elif variant == "free-while-waiting":
                    found = run_free_while_waiting(period, P, rel, res)
                else:
                    found = run_pair(period, P, variant, rel, res)
                for sig, msg in found:
                    if sig == "harness":
                        raise core.HarnessError(msg)
                    res.violation(sig, f"period {P} us, variant {variant}, first object released by {rel}: {msg}", dict(engine="notifier", kind="pair", period=period, P=P, variant=variant, release=rel))
                res.outcome(f"pair:{variant}:{rel}")
        res.sample(dict(kind="two-objects", variants=PAIR_VARIANTS))
    return res


def work(item):
    core.bind_repo()
    import hal.simulation as hs

    hs.pauseTiming()
    res = core.Result()
    period, P = item["period"]
    hangs = [0]
    for sched in item["schedules"]:
        for offset in item["offsets"]:
            release = "free" if (len(sched) + offset) % 2 == 0 else "with"
            res.executions += 1
            res.transitions += len(sched)
            res.checks += len(sched) * 2 + 2
            if hangs[0] >= 2:
                if "stopped after two unresponsive wait() calls in one worker item" not in res.caps:
                    res.caps.append("stopped after two unresponsive wait() calls in one worker item")
                continue
            found = run_schedule(period, P, sched, offset, release, res)
            if any(sig.startswith("wait-never-returns") or sig.startswith("wait-after-release-blocks") for sig, _m in found):
                # exclude machine load: the same schedule must hang a second time, with a three times longer patience
                global PATIENCE
                PATIENCE = 20.0
                try:
                    found = run_schedule(period, P, sched, offset, release, res)
                finally:
                    PATIENCE = 6.0
            for sig, msg in found:
                if sig == "harness":
                    raise core.HarnessError(msg)
                if sig.startswith("wait-never-returns") or sig.startswith("wait-after-release-blocks"):
                    hangs[0] += 1
                res.violation(sig, f"period {P} us, t0 offset {offset}: {msg}", dict(engine="notifier", period=period, P=P, schedule=list(sched), offset=offset, release=release))
    if item["schedules"]:
        res.sample(dict(period_us=P, body_durations_us=list(item["schedules"][-1]), expected_return_offsets=[max((k + 1) * P, sum(item["schedules"][-1][: k + 1])) for k in range(len(item["schedules"][-1]))]))
    return res


def main(tier, seed):
    t0 = time.time()
    maxlen = 4 if tier == "quick" else 6
    items = []
    nsched = 0
    for period, P in PERIODS:
        B = bodies(P)
        scheds = [s for ln in range(1, maxlen + 1) for s in itertools.product(B, repeat=ln)]
        # every schedule is a prefix of longer ones; running only maximal schedules covers all prefixes' waits,
        # but release happens after the last wait, so shorter schedules are kept for lengths 1-2
        scheds = [s for s in scheds if len(s) == maxlen or len(s) <= 2]
        nsched += len(scheds)
        for i in range(0, len(scheds), 60):
            items.append(dict(period=(period, P), schedules=scheds[i:i + 60], offsets=[0, 7777] if tier == "thorough" else [0]))
    res = core.Result()
    extra = []
    for period, P in PERIODS:
        n = (1300 if P == 1000 else 400) if tier == "quick" else (5000 if P == 1000 else 2000)
        extra.append(dict(kind="long", period=(period, P), n=n))
        extra.append(dict(kind="pair", period=(period, P)))
    with core.WorkerPool() as pool:
        for d in pool.run("mc.props.c16", "work", items, seed=seed):
            res.merge(d)
        for d in pool.run("mc.props.c16", "work_extra", extra, seed=seed):
            res.merge(d)
    res.bounds.update(long_run_iterations={"1000us": 1300 if tier == "quick" else 5000, "others": 400 if tier == "quick" else 2000}, two_object_variants=PAIR_VARIANTS)
    res.bounds.update(schedule_length=maxlen, periods_us=[p[1] for p in PERIODS], body_durations=["0", "P/2", "P-1us", "P", "P+1us", "2.5P"], schedules=nsched)
    rule = (
        "for each period in {1 ms, 5 ms, 20 ms, 1/64 s}: every sequence of loop-body durations of the stated length over {0, P/2, P-1us, P, P+1us, 2.5P} "
        "(plus all sequences of length 1-2), expressed as advances of the paused FPGA clock between wait() calls; the real NotifierDelay.wait() runs in a "
        "worker thread, the harness reads the programmed alarm from the HAL (independent of the object's fields) before each wait and the FPGA time at "
        "which wait() returned. Oracle: alarm before wait #k == t0 + k*P; return time == max(t0 + k*P, time of the call); a wait that must block is "
        "given the chance to return early before the clock moves and again 1 us before the grid point; after free() / leaving the with-block the HAL "
        "notifier count is back and wait() returns without the clock moving; in the with-block runs the block is entered only after the first loop body (and once more, nested, before the third wait). In addition: long uninterrupted runs (hundreds to thousands of iterations with a "
        "constant short body, every alarm and return instant checked to the microsecond) and two objects whose lifetimes touch (the first released, freed again, waited on, "
        "garbage-collected or released after the second was created: the second object's grid and the HAL notifier count must be undisturbed). states = (period, body duration, position); transitions = waits executed."
    )
    return core.finish(PID, tier, seed, res, time.time() - t0, rule, ["HAL simulation notifier semantics are the environment", "periods whose microsecond conversion is exact (the int() truncation of other periods is noted in DESIGN.md section 6, outside the stated grid property)"])


def replay(path):
    core.bind_repo()
    import hal.simulation as hs

    hs.pauseTiming()
    r = json.load(open(path))["replay"]
    res = core.Result()
    out = run_schedule(r["period"], r["P"], tuple(r["schedule"]), r["offset"], r["release"], res)
    for o in out:
        print("VIOLATION:", o)
    return 1 if out else 0
