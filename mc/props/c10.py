"""C10 - will_reset_to values never survive into the next control-loop iteration.  robot engine: every
callback records the values it sees and performs its scripted assignments; a reset model is replayed over
the observed callback order.  DESIGN.md section 4."""
import itertools
import json
import time

from mc import core
from mc import robotdrv as R

PID = "C10"

BASE_SRC = "class K_mbase:\n    inherited = will_reset_to('inh')\n    redecl = will_reset_to('base')\n    shadowed = will_reset_to('marker')\n\n"
C0_SRC = "    flag = will_reset_to(0)\n    mark2 = will_reset_to('x')\n    other = 'keep'\n    opt = will_reset_to(None)\n"
# (component, attribute) pairs whose "write" is a deletion (del comp.attr): the reset must bring the default back all the same
DELS = {("c0", "opt")}
DELETED = "<deleted>"
C1_SRC = "    flag = will_reset_to(-1)\n    other = 'keep1'\n    redecl = will_reset_to('derived')\n    shadowed = 'plain'\n"
ATTRS3 = [("cb", "inherited", "inh", True), ("cb", "redecl", "base", True), ("cb", "shadowed", "marker", True)]
ATTRS2 = [("c2", "flag", 0, True), ("c2", "mark2", "x", True), ("c2", "other", "keep", False), ("c2", "opt", None, True)]
ATTRS = [("c0", "flag", 0, True), ("c0", "mark2", "x", True), ("c0", "other", "keep", False), ("c0", "opt", None, True), ("c1", "flag", -1, True), ("c1", "inherited", "inh", True), ("c1", "other", "keep1", False), ("c1", "redecl", "derived", True), ("c1", "shadowed", "plain", False)]
# writers: site -> list of (component, attribute)
WRITERS = [
    ("teleopPeriodic", [("c1", "flag"), ("c0", "mark2"), ("c1", "redecl")]),
    ("mode.on_iteration", [("c0", "flag"), ("c1", "inherited")]),
    ("c0.execute", [("c1", "flag"), ("c1", "other"), ("c1", "shadowed")]),
    ("c1.execute", [("c0", "flag"), ("c0", "other"), ("c1", "inherited"), ("c0", "opt")]),
]


EXTRA_WRITES3 = {"teleopPeriodic": [("cb", "redecl")], "c0.execute": [("cb", "shadowed"), ("cb", "inherited")], "mode.on_iteration": [("cb", "redecl")]}
# layout 4: StateMachine components whose markers come from a mix-in listed after / before StateMachine in the bases
MIX_SRC = "class K_mix:\n    spin = will_reset_to('s')\n\n"
SM_SRC = "    own = will_reset_to(5)\n    @magicbot.state(first=True)\n    def s0(self):\n        pass\n"
ATTRS4 = [("c3", "spin", "s", True), ("c3", "own", 5, True), ("c4", "spin", "s", True), ("c4", "own", 5, True)]
EXTRA_WRITES4 = {"teleopPeriodic": [("c3", "spin")], "c1.execute": [("c3", "own"), ("c4", "spin")], "mode.on_iteration": [("c3", "spin"), ("c4", "own")], "c0.execute": [("c4", "spin")]}
EXTRA_WRITES = {"teleopPeriodic": [("c2", "flag")], "c0.execute": [("c2", "mark2"), ("c2", "other")], "mode.on_iteration": [("c2", "flag")]}


def the_layout(variant=0):
    c = R.comp
    c0 = c("c0", extra_src=C0_SRC)
    c1 = c("c1", extra_src=C1_SRC)
    comps = [c0, c1] if variant == 0 else [c1, c0]
    if variant == 2:
        comps = [c0, c1, c("c2", same_class_as="c0")]  # two components that are instances of the very same class
    if variant == 3:
        # the base class that declares the inherited markers is itself a component, declared before its subclass
        cb = c("cb", extra_src="    inherited = will_reset_to('inh')\n    redecl = will_reset_to('base')\n    shadowed = will_reset_to('marker')\n")
        comps = [cb, c0, c("c1", inherit="cb", extra_src=C1_SRC)]
    if variant == 4:
        comps = [c0, c("c3", extra_src=SM_SRC), c1, c("c4", extra_src=SM_SRC)]
    lay = R.layout(f"reset{variant}", comps, auto=True, teleop_in_auto=(variant != 1), p_us=20000)
    if variant != 3:
        lay["prelude"] = BASE_SRC
        lay["c1_parent"] = "K_mbase"
    if variant == 4:
        lay["prelude"] = BASE_SRC + MIX_SRC
        lay["parents"] = {"c3": "magicbot.StateMachine, K_mix", "c4": "K_mix, magicbot.StateMachine"}
    return lay


# robotdrv generates K_c1 without parents; patch the source generator through the layout (prelude + parent)
_orig_source = R.robot_source


def robot_source(lay):
    src = _orig_source(lay)
    if lay.get("prelude"):
        src = lay["prelude"] + src.replace("class K_c1():", f"class K_c1({lay['c1_parent']}):")
    for nm, parents in (lay.get("parents") or {}).items():
        src = src.replace(f"class K_{nm}():", f"class K_{nm}({parents}):")
    return src


R.robot_source = robot_source


class Hook:
    def __init__(self, writers):
        self.writers = {WRITERS[i][0]: WRITERS[i][1] for i in writers}
        self.robot = None

    def __call__(self, site, obj, rec, n):
        if site == "createObjects":
            self.robot = obj
            return
        r = self.robot
        if r is None or not hasattr(r, "c0") or not hasattr(r, "c1"):
            return
        snap = []
        attrs = ATTRS + (ATTRS2 if hasattr(r, "c2") else []) + (ATTRS3 if hasattr(r, "cb") else []) + (ATTRS4 if hasattr(r, "c3") else [])
        for comp, attr, _d, _m in attrs:
            v = getattr(getattr(r, comp), attr, "<missing>")
            snap.append(DELETED if type(v).__name__ == "will_reset_to" else v)
        rec[2] = snap
        w = self.writers.get(site)
        if w:
            val = f"{site}#{n}"
            for comp, attr in w + (EXTRA_WRITES.get(site, []) if hasattr(r, "c2") else []) + (EXTRA_WRITES3.get(site, []) if hasattr(r, "cb") else []) + (EXTRA_WRITES4.get(site, []) if hasattr(r, "c3") else []):
                if (comp, attr) in DELS:
                    try:
                        delattr(getattr(r, comp), attr)
                    except AttributeError:
                        pass
                else:
                    setattr(getattr(r, comp), attr, val)


def check(lay, h, life, writers):
    out = []
    wr = {WRITERS[i][0]: list(WRITERS[i][1]) for i in writers}
    ATTRS = globals()["ATTRS"]
    if any(c["name"] == "c2" for c in lay["comps"]):
        ATTRS = ATTRS + ATTRS2
        for site in wr:
            wr[site] = wr[site] + EXTRA_WRITES.get(site, [])
    if any(c["name"] == "cb" for c in lay["comps"]):
        ATTRS = ATTRS + ATTRS3
        for site in wr:
            wr[site] = wr[site] + EXTRA_WRITES3.get(site, [])
    if any(c["name"] == "c3" for c in lay["comps"]):
        ATTRS = ATTRS + ATTRS4
        for site in wr:
            wr[site] = wr[site] + EXTRA_WRITES4.get(site, [])
    state = {(c, a): d for c, a, d, _m in ATTRS}
    cnt = {}
    for k, st in enumerate(life.steps):
        for rec in life.log[st["start"]:st["end"]]:
            site = rec[0]
            cnt[site] = cnt.get(site, 0) + 1
            if rec[2] is None:
                continue
            exp = [state[(c, a)] for c, a, _d, _m in ATTRS]
            if list(rec[2]) != exp:
                bad = [(f"{c}.{a}", got, e) for (c, a, _d, m), got, e in zip(ATTRS, rec[2], exp) if got != e]
                name, got, e = bad[0]
                marked = next(m for c, a, _d, m in ATTRS if f"{c}.{a}" == name)
                if marked:
                    default = next(d for c, a, d, _m in ATTRS if f"{c}.{a}" == name)
                    kind = "stale-value-survived" if got != default and e == default else ("reset-too-early" if got == default else "wrong-value")
                else:
                    kind = "unmarked-attribute-touched"
                out.append((f"{kind}:{name.split('.')[1] if marked else 'other'}", f"history {h!r} step {k} (mode {st['mode']}), in {site}: {name} = {got!r}, expected {e!r}"))
                return out
            for comp, attr in wr.get(site, ()):
                state[(comp, attr)] = DELETED if (comp, attr) in DELS else f"{site}#{cnt[site]}"
        if st["mode"] in ("a", "t"):
            for c, a, d, m in ATTRS:
                if m:
                    state[(c, a)] = d
    return out


def work(item):
    R.install()
    lay = item["layout"]
    res = core.Result()
    for h in item["histories"]:
        for writers, plan in item["cases"]:
            hook = Hook(writers)
            life = R.run_life(lay, h, fms=True, faults=plan, hooks=[hook])
            res.executions += 1
            res.transitions += len(life.steps)
            res.checks += len(life.log)
            rp = dict(engine="robot", layout=lay, history=h, writers=list(writers), faults=plan)
            if life.end is None or life.end[0] != "exit":
                res.violation("robot-stopped", f"layout {lay['name']} history {h!r} writers {writers} faults {plan}: end {life.end!r}", rp)
                continue
            for sig, msg in check(lay, h, life, writers):
                res.violation(sig, f"layout {lay['name']} writers {[WRITERS[i][0] for i in writers]} faults {plan}: {msg}", rp)
            res.outcome(core.stable_hash([h, list(writers), sorted(plan.items()), [r[2] for r in life.log if r[0] == "robotPeriodic"]]))
            R.visit_history(res, lay, h, extra=(list(writers), sorted(plan.items())))
            if not res.samples and len(h) >= 3 and len(writers) == 4:
                res.sample(dict(layout=lay["name"], history=h, writers=[WRITERS[i][0] for i in writers], attrs=[f"{c}.{a}" for c, a, _d, _m in ATTRS], seen_by_robotPeriodic=[r[2] for r in life.log if r[0] == "robotPeriodic"]))
    return res


def fault_sites():
    return ["c0.on_enable", "c1.on_disable", "c0.execute", "c1.execute", "autonomousInit", "teleopInit", "disabledInit", "teleopPeriodic", "robotPeriodic", "c0.fb", "c1.fb", "robot.fb", "mode.on_enable", "mode.on_iteration", "mode.on_disable"]


def main(tier, seed):
    t0 = time.time()
    depth = 3 if tier == "quick" else 4
    hs = [h for h in R.histories(depth)]
    subsets = [tuple(i for i in range(4) if mask >> i & 1) for mask in range(16)]
    allw = (0, 1, 2, 3)
    cases_script = [(w, {}) for w in subsets]
    cases_fault = [(allw, {s: pat}) for s in fault_sites() for pat in (1, "every")]
    if tier == "thorough":
        cases_fault += [(allw, {a: "every", b: "every"}) for a, b in itertools.combinations(["c0.execute", "c1.execute", "teleopPeriodic", "robotPeriodic", "mode.on_iteration", "c0.fb"], 2)]
    items = []
    for v in (0, 1, 2, 3, 4):
        lay = the_layout(v)
        for i in range(0, len(hs), 4):
            items.append(dict(layout=lay, histories=hs[i:i + 4], cases=cases_script + cases_fault))
    res = core.Result()
    for d in core.parallel("mc.props.c10", "work", items, seed=seed):
        res.merge(d)
    res.bounds.update(history_depth=depth, layouts=5, assignment_scripts=16, fault_plans=len(cases_fault), attributes=[f"{c}.{a}" for c, a, _d, _m in ATTRS])
    rule = (
        "five component layouts (both declaration orders, one with two components that are instances of the same class, one where the base class declaring the inherited markers is itself a component, one with StateMachine components whose markers come from a mix-in listed after / before StateMachine; markers declared on the class, a second marker, a marker inherited from a base "
        "class, an unmarked attribute) x every driver-station history up to the stated depth x all 16 subsets of assignment sources "
        "(teleopPeriodic, autonomous mode, earlier component, later component) and, with all sources active, every single fault plan "
        "(site x {first, every}) with the FMS attached. Every callback records all six attributes before doing its own assignments; a "
        "reset model (defaults; assignment visible to all later callbacks of the iteration; marked attributes back to default after each "
        "enabled iteration; unmarked attributes untouched) is replayed over the observed callback order and must match every snapshot."
    )
    return core.finish(PID, tier, seed, res, time.time() - t0, rule, ["a faulting callback performs its assignments before raising, so the model knows which writes happened"])


def replay(path):
    R.install()
    r = json.load(open(path))["replay"]
    lay, h = r["layout"], r["history"]
    hook = Hook(tuple(r["writers"]))
    life = R.run_life(lay, h, fms=True, faults=r["faults"], hooks=[hook])
    for rec in life.log:
        print(rec[0], rec[2])
    out = check(lay, h, life, tuple(r["writers"]))
    for o in out:
        print("DISAGREEMENT:", o)
    return 1 if out or life.end[0] != "exit" else 0
