"""C19 - Toggle flips once per press; debouncers and rate limiters fire once per period.  `ctl` engine:
explicit-state BFS (closed where the state space is finite after clamping relative clocks) over sample / record /
watchdog operation sequences on the real objects, plus flat sequences as a cross-check.  DESIGN.md section 4."""
import itertools
import json
import logging
import time
from fractions import Fraction as F

from mc import core, env

PID = "C19"


class Stick:
    """Duck-typed joystick: the harness decides the raw button level."""

    def __init__(self):
        self.level = False
        self.reads = 0

    def getRawButton(self, n):
        self.reads += 1
        return self.level


def bfs(name, ops, run, res, max_depth, flat_depth):
    """run(history) -> (canonical key, list of (sig, msg)).  State = shortest history reaching a key."""
    seen = {}
    k0, v0 = run(())
    seen[k0] = ()
    frontier = [()]
    depth = 0
    closed = False
    trans = 0
    while frontier and depth < max_depth:
        nxt = []
        for h in frontier:
            for op in ops:
                h2 = h + (op,)
                key, viol = run(h2)
                trans += 1
                res.executions += 1
                res.checks += 1
                for sig, msg in viol:
                    res.violation(f"{name}:{sig}", f"{name}: history {list(h2)}: {msg}", dict(engine="ctl", component=name, history=[list(o) if isinstance(o, tuple) else o for o in h2]))
                if key not in seen:
                    seen[key] = h2
                    nxt.append(h2)
        frontier = nxt
        depth += 1
        if not frontier:
            closed = True
    res.states += len(seen)
    res.transitions += trans
    res.bounds[name] = dict(states=len(seen), depth=depth, closed=closed, flat_depth=flat_depth)
    # flat cross-check (no merging)
    for ln in range(1, flat_depth + 1):
        for h in itertools.product(ops, repeat=ln):
            key, viol = run(h)
            res.executions += 1
            res.checks += 1
            for sig, msg in viol:
                res.violation(f"{name}:{sig}", f"{name}: history {list(h)}: {msg}", dict(engine="ctl", component=name, history=[list(o) if isinstance(o, tuple) else o for o in h]))
    return seen


def rel(x, now, cap):
    v = F(now) - F(x)
    return str(max(-cap, min(cap, v)))


# ------------------------------------------------------------------------------------------ Toggle


def toggle_plain(res, tier):
    from robotpy_ext.control.toggle import Toggle

    ops = [(lvl, acc) for lvl in (0, 1) for acc in ("get", "on", "off", "bool")]

    def run(h):
        st = Stick()
        t = Toggle(st, 3)
        model = False
        prev = 0
        viol = []
        for i, (lvl, acc) in enumerate(h):
            st.level = bool(lvl)
            before = st.reads
            if acc == "get":
                out = t.get()
                exp_out = None
            elif acc == "bool":
                out = bool(t)
                exp_out = None
            elif acc == "on":
                out = t.on
            else:
                out = t.off
            if st.reads != before + 1:
                viol.append(("sample-count", f"step {i}: accessor {acc} took {st.reads - before} samples"))
            if lvl and not prev:
                model = not model
            prev = lvl
            want = (not model) if acc == "off" else model
            if bool(out) != want:
                kind = "flip-missed-or-spurious"
                viol.append((f"{kind}:{acc}", f"step {i}: level {lvl} via {acc} -> {out}, model says toggle state {model}"))
                break
        key = (model, prev, tuple(sorted((k, v) for k, v in vars(t).items() if isinstance(v, (bool, int)))))
        res.outcome(f"tp:{model}:{prev}")
        return key, viol

    bfs("Toggle", ops, run, res, 12, 4 if tier == "quick" else 5)
    res.sample(dict(component="Toggle", history=[[1, "get"], [1, "on"], [0, "off"], [1, "bool"]], expected=[True, True, False, False]))


def toggle_debounced(res, tier, period_ticks, early=False):
    """early=True: every history starts at FPGA time 0 (restartTiming), so the first samples are taken while the clock is
    still below the debounce period - the only situation where the initial value of the debouncer's `latest` matters."""
    from robotpy_ext.control.toggle import Toggle
    import hal.simulation as hs

    P = F(period_ticks, 64)
    ops = [(adv, lvl, acc) for adv in (0, 1, 2, 4) for lvl in (0, 1) for acc in ("get", "on", "off")]
    cap = P + F(5, 64)

    def run(h):
        if early:
            hs.restartTiming()
            if env.fpga_us() != 0:
                raise core.HarnessError("restartTiming() did not bring the paused clock to 0")
        else:
            env.align()
        st = Stick()
        t = Toggle(st, 3, debounce_period=float(P))
        viol = []
        state = False
        last_change = None
        held_since_change = True  # raw level pressed at every sample since the last change
        released_since_change = True
        for i, (adv, lvl, acc) in enumerate(h):
            env.advance(adv)
            now = env.now()
            st.level = bool(lvl)
            out = t.get() if acc == "get" else (t.on if acc == "on" else (not t.off))
            out = bool(out)
            # on is the negation of off, without a new edge in between (advance 0, same level)
            if acc == "on":
                off = t.off
                if bool(off) == out and not (lvl and False):
                    viol.append(("on-not-negation-of-off", f"step {i}: on={out} off={off}"))
            if out != state:
                if last_change is not None and now - last_change < P:
                    viol.append(("changes-closer-than-period", f"step {i}: changed at {now}, previous change at {last_change}, period {P}"))
                if not lvl:
                    viol.append(("change-while-released", f"step {i}: state changed at a sample whose raw level is released"))
                if last_change is not None and (held_since_change and lvl):
                    viol.append(("change-while-held", f"step {i}: state changed although the button was held at every sample since the last change"))
                state = out
                last_change = now
                held_since_change = True
                released_since_change = True
            else:
                held_since_change = held_since_change and bool(lvl)
                released_since_change = released_since_change and not lvl
            if viol:
                break
        now = env.now()
        fp = []
        for k, v in sorted(vars(t).items()):
            if isinstance(v, (bool, int)):
                fp.append((k, v))
        deb = getattr(t.joystickget, "__self__", None)
        if deb is not None:
            for k, v in sorted(vars(deb).items()):
                if isinstance(v, bool):
                    fp.append((k, v))
                elif isinstance(v, float) and k != "debounce_period":
                    fp.append((k, rel(v, now, cap)))
        key = (state, rel(last_change, now, cap) if last_change is not None else None, held_since_change, released_since_change, st.level, tuple(fp))
        res.outcome(f"td:{state}:{key[1]}")
        return key, viol

    if early:
        bfs(f"Toggle(debounce={period_ticks}t,clock-from-0)", ops, run, res, 6 if tier == "quick" else 9, 3)
        env.advance(64)
    else:
        bfs(f"Toggle(debounce={period_ticks}t)", ops, run, res, 12 if tier == "quick" else 16, 3)


# ------------------------------------------------------------------------------------------ ButtonDebouncer


def toggle_pair(res, tier, period_ticks):
    """Two Toggle objects watching the same joystick button with the same debounce period: each must react only to the
    samples *it* takes (monitors as for one debounced Toggle, kept per object)."""
    from robotpy_ext.control.toggle import Toggle

    P = F(period_ticks, 64)
    ops = [(adv, lvl, which) for adv in (0, 1, 2) for lvl in (0, 1) for which in (0, 1)]
    cap = P + F(5, 64)

    def run(h):
        env.align()
        st = Stick()
        ts = [Toggle(st, 3, debounce_period=float(P)), Toggle(st, 3, debounce_period=float(P))]
        viol = []
        state = [False, False]
        last_change = [None, None]
        seen_pressed = [False, False]  # has this object ever sampled a pressed button since its last change?
        for i, (adv, lvl, w) in enumerate(h):
            env.advance(adv)
            now = env.now()
            st.level = bool(lvl)
            out = bool(ts[w].get()) if i % 2 == 0 else bool(ts[w].on)
            if lvl:
                seen_pressed[w] = True
            if out != state[w]:
                if not lvl:
                    viol.append(("pair:change-while-released", f"step {i}: toggle {w} changed at a sample whose raw level is released (it has {'never' if not seen_pressed[w] else 'not now'} sampled a pressed button)"))
                if last_change[w] is not None and now - last_change[w] < P:
                    viol.append(("pair:changes-closer-than-period", f"step {i}: toggle {w} changed at {now}, its previous change was at {last_change[w]}, period {P}"))
                state[w] = out
                last_change[w] = now
                seen_pressed[w] = bool(lvl)
            if viol:
                break
        now = env.now()
        fp = []
        for t in ts:
            for k, v in sorted(vars(t).items()):
                if isinstance(v, (bool, int)):
                    fp.append((k, v))
            deb = getattr(t.joystickget, "__self__", None)
            if deb is not None:
                for k, v in sorted(vars(deb).items()):
                    if isinstance(v, float) and k != "debounce_period":
                        fp.append((k, rel(v, now, cap)))
        key = (tuple(state), tuple(rel(x, now, cap) if x is not None else None for x in last_change), st.level, tuple(fp))
        res.outcome(f"tp2:{key[0]}:{key[1]}")
        return key, viol

    bfs(f"TogglePair(debounce={period_ticks}t)", ops, run, res, 6 if tier == "quick" else 8, 3)


def debouncer(res, tier, period_ticks):
    from robotpy_ext.control.button_debouncer import ButtonDebouncer

    P = F(period_ticks, 64)
    # ("setp",): set_debounce_period() called again with the period the object already has - the period has not changed
    ops = [(adv, lvl) for adv in (0, 1, 2, 3, 4) for lvl in (0, 1)] + [("setp",)]
    cap = P + F(5, 64)

    def run(h):
        env.align()
        st = Stick()
        d = ButtonDebouncer(st, 1, period=float(P))
        viol = []
        last_true = None
        for i, op in enumerate(h):
            if op[0] == "setp":
                d.set_debounce_period(float(P))
                continue
            adv, lvl = op
            env.advance(adv)
            now = env.now()
            st.level = bool(lvl)
            out = bool(d.get()) if i % 2 == 0 else bool(d)
            if out and not lvl:
                viol.append(("true-while-released", f"step {i}"))
            if out and last_true is not None and not (now - last_true > P):
                viol.append(("two-trues-within-period", f"step {i}: True at {now}, previous True at {last_true}, period {P}"))
            must = lvl and ((last_true is None and now > P) or (last_true is not None and now - last_true > P))
            if must and not out:
                viol.append(("press-after-period-ignored", f"step {i}: pressed, last True {last_true}, now {now}, period {P}, got False"))
            if out:
                last_true = now
            if viol:
                break
        now = env.now()
        fp = tuple((k, rel(v, now, cap)) if isinstance(v, float) and k != "debounce_period" else (k, v) for k, v in sorted(vars(d).items()) if isinstance(v, (bool, int, float)) and k != "debounce_period")
        key = (rel(last_true, now, cap) if last_true is not None else None, fp)
        res.outcome(f"bd:{key[0]}")
        return key, viol

    bfs(f"ButtonDebouncer({period_ticks}t)", ops, run, res, 10 if tier == "quick" else 14, 4)
    res.sample(dict(component="ButtonDebouncer", period_ticks=period_ticks, history=[[0, 1], [period_ticks, 1], [1, 1]], expected=[True, False, True]))


# ------------------------------------------------------------------------------------------ PeriodicFilter


class FakeTime:
    def __init__(self):
        self.t = F(1000)

    def monotonic(self):
        return float(self.t)


def periodic_filter(res, tier, period_ticks):
    import robotpy_ext.misc.periodic_filter as pf

    P = F(period_ticks, 64)
    levels = {"below": logging.INFO, "at": logging.WARNING, "above": logging.ERROR}
    ops = [(adv, lv) for adv in (0, 1, 2, 4) for lv in levels]
    cap = P + F(5, 64)
    clock = FakeTime()
    pf.time = clock  # the module reads time.monotonic(): the harness owns that clock

    def run(h):
        clock.t = F(1000)
        f = pf.PeriodicFilter(float(P), bypass_level=logging.WARNING)
        viol = []
        passed_low = []
        for i, (adv, lv) in enumerate(h):
            clock.t += F(adv, 64)
            rec = logging.LogRecord("x", levels[lv], __file__, 1, "m", (), None)
            out = bool(f.filter(rec))
            if lv != "below" and not out:
                viol.append(("bypass-level-record-dropped", f"step {i}: record at level {lv} was filtered out"))
            if lv == "below" and out:
                if passed_low and clock.t - passed_low[-1] < P:
                    viol.append(("low-level-records-closer-than-period", f"step {i}: passed at {clock.t}, previous low-level record passed at {passed_low[-1]}, period {P}"))
                passed_low.append(clock.t)
            if viol:
                break
        fp = tuple((k, rel(v, clock.t, cap)) if isinstance(v, float) and k != "_period" else (k, v) for k, v in sorted(vars(f).items()) if isinstance(v, (bool, int, float)) and k != "_period")
        key = (rel(passed_low[-1], clock.t, cap) if passed_low else None, fp)
        res.outcome(f"pf:{key[0]}")
        return key, viol

    bfs(f"PeriodicFilter({period_ticks}t)", ops, run, res, 10 if tier == "quick" else 14, 4)
    res.sample(dict(component="PeriodicFilter", period_ticks=period_ticks, history=[[0, "below"], [1, "at"], [1, "below"]], rule="records at/above WARNING always pass; two passed INFO records are never closer than the period"))


# ------------------------------------------------------------------------------------------ SimpleWatchdog


class Capture(logging.Handler):
    def __init__(self):
        super().__init__()
        self.times = []

    def emit(self, record):
        if record.levelno >= logging.WARNING:
            self.times.append(env.fpga_us())


def watchdog(res, tier, T=20000):
    from robotpy_ext.misc.simple_watchdog import SimpleWatchdog

    ops = [("adv", 0), ("adv", T - 1), ("adv", T), ("adv", T + 1), ("adv", 1000000), ("adv", 1000001), ("reset",), ("epoch",), ("expired",), ("print",), ("setT",)]
    lg = logging.getLogger("simple_watchdog")
    cap = Capture()
    lg.addHandler(cap)
    lg.setLevel(logging.INFO)
    lg.propagate = False
    logging.disable(logging.NOTSET)

    def run(h):
        w = SimpleWatchdog(T / 1e6)
        cap.times = []
        w.reset()
        last_reset = env.fpga_us()
        viol = []
        warned = []
        strict = True  # False between setTimeout() and the next reset(): whether setTimeout re-arms is not stated, only the warning rate limit is checked there
        for i, op in enumerate(h):
            if op[0] == "adv":
                env.advance_us(op[1])
            elif op[0] == "reset":
                w.reset()
                last_reset = env.fpga_us()
                strict = True
            elif op[0] == "setT":
                w.setTimeout(T / 1e6)
                strict = False
            elif op[0] == "epoch":
                w.addEpoch(f"e{i}")
            elif op[0] == "expired":
                out = bool(w.isExpired())
                exp = env.fpga_us() - last_reset > T
                if strict and out != exp:
                    viol.append((f"isExpired-wrong:{'early' if out else 'late'}", f"step {i}: isExpired()={out}, {env.fpga_us() - last_reset} us since the last reset, timeout {T} us"))
            else:
                n0 = len(cap.times)
                w.printIfExpired()
                new = cap.times[n0:]
                if len(new) > 1:
                    viol.append(("warning-duplicated", f"step {i}: {len(new)} warnings from one printIfExpired()"))
                for t in new:
                    if warned and t - warned[-1] < 1000000:
                        viol.append(("warnings-within-one-second", f"step {i}: warning at {t}, previous at {warned[-1]}"))
                    if strict and not (t - last_reset > T):
                        viol.append(("warning-while-not-expired", f"step {i}: {t - last_reset} us since reset"))
                    warned.append(t)
            if viol:
                break
        now = env.fpga_us()
        C = 1000000 + T + 5
        fp = tuple((k, max(-C, min(C, now - v))) if k.endswith("Time") else (k, v) for k, v in sorted(vars(w).items()) if isinstance(v, int) and not isinstance(v, bool) and k != "_timeout")
        key = (strict, min(C, now - last_reset), min(C, now - warned[-1]) if warned else None, min(3, len(w._epochs)) if hasattr(w, "_epochs") else 0, fp)
        res.outcome(f"wd:{key[1]}:{key[2]}")
        return key, viol

    try:
        bfs(f"SimpleWatchdog({T}us)", ops, run, res, (7 if tier == "quick" else 9) if T == 20000 else 5, 3 if tier == "quick" else 4)
    finally:
        lg.removeHandler(cap)
        logging.disable(logging.CRITICAL)
    res.sample(dict(component="SimpleWatchdog", timeout_us=T, history=[["adv", T + 1], ["expired"], ["print"], ["reset"], ["adv", T + 1], ["print"]], rule="isExpired iff now - last reset > timeout; warnings at least 1 s apart"))


def main(tier, seed):
    t0 = time.time()
    core.bind_repo()
    env.init()
    res = core.Result()
    toggle_plain(res, tier)
    for p in (2, 3):
        toggle_debounced(res, tier, p)
        debouncer(res, tier, p)
        periodic_filter(res, tier, p)
    toggle_pair(res, tier, 3)
    watchdog(res, tier)
    watchdog(res, tier, T=1009)  # a whole-microsecond timeout whose float product with 1e6 falls just below the integer
    for p in (2, 3):
        toggle_debounced(res, tier, p, early=True)  # last: moves the paused clock back to 0 for every history
    rule = (
        "explicit-state BFS with replay on the real objects, state = (monitor state, implementation fields with clocks made relative and clamped): "
        "Toggle without debounce: ops (level, accessor in get/on/off/bool), exact edge-detector model, closed; Toggle with debounce (periods 2, 3 ticks): "
        "ops (advance 0/1/2/4 ticks, level, accessor), monitors: changes at least a period apart, only at a pressed sample, never while held/released throughout, "
        "on == not off; two debounced Toggles on the same button (each reacts only to its own samples); ButtonDebouncer: True only if pressed, two Trues more than the period apart, pressed and more than a period since the last True implies True; "
        "PeriodicFilter with the module clock substituted: records at/above the bypass level always pass, passed lower-level records at least a period apart; "
        "SimpleWatchdog: advance in {0, timeout-1us, timeout, timeout+1us, 1 s, 1 s+1us}, reset, addEpoch, isExpired (exact integer-microsecond model), printIfExpired "
        "(captured warnings at least 1 s apart, only when expired). Flat sequences to the stated depth are run as an unmerged cross-check."
    )
    return core.finish(PID, tier, seed, res, time.time() - t0, rule, ["which presses inside a debounce window are swallowed is unspecified (monitors only)", "ButtonDebouncer start value: any value <= 0 satisfies the oracle because the simulated FPGA time exceeds the period", "set_debounce_period with a different period is outside the alphabet (set_debounce_period with the unchanged period is an operation); setTimeout(<unchanged timeout>) is an operation of the watchdog alphabet, but between it and the next reset() only the warning rate limit is checked (whether setTimeout re-arms the timer is not stated)", "debounced Toggle histories are also started from FPGA time 0 (first samples below the debounce period)"])


def replay(path):
    core.bind_repo()
    env.init()
    r = json.load(open(path))["replay"]
    print(r)
    res = core.Result()
    main_tier = "quick"
    toggle_plain(res, main_tier)
    for p in (2, 3):
        toggle_debounced(res, main_tier, p)
        debouncer(res, main_tier, p)
        periodic_filter(res, main_tier, p)
    toggle_pair(res, main_tier, 3)
    watchdog(res, main_tier)
    watchdog(res, main_tier, T=1009)
    for p in (2, 3):
        toggle_debounced(res, main_tier, p, early=True)
    for k, v in res.violations.items():
        print(k, v["msg"])
    return 1 if res.violations else 0
