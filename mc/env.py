"""Harness-owned environment: paused dyadic clock, NetworkTables / HAL isolation.  DESIGN.md 3.2-3.3."""
import gc
from fractions import Fraction

TICK_US = 15625  # 1/64 s: every tick count is an exact binary float in seconds
TICK = Fraction(1, 64)

_state = {"init": False, "nt_uses": 0, "counter": 0}


def init():
    """Pause the simulated clock once per process and align it to the tick grid."""
    import hal.simulation as hs
    import wpilib

    if not _state["init"]:
        hs.pauseTiming()
        _state["init"] = True
        assert wpilib.RobotBase.isSimulation()
    align()


def fpga_us():
    import wpilib

    return wpilib.RobotController.getFPGATime()


def align():
    import hal.simulation as hs

    rem = fpga_us() % TICK_US
    if rem:
        hs.stepTimingAsync(TICK_US - rem)
    if fpga_us() % TICK_US:
        from mc.core import HarnessError

        raise HarnessError("cannot align the simulated clock to the tick grid")


def advance(ticks):
    """Move the paused clock forward by a whole number of ticks (never backwards)."""
    import hal.simulation as hs

    if ticks:
        hs.stepTimingAsync(int(ticks) * TICK_US)


def advance_us(us):
    import hal.simulation as hs

    if us:
        hs.stepTimingAsync(int(us))


def now_ticks():
    us = fpga_us()
    if us % TICK_US:
        from mc.core import HarnessError

        raise HarnessError(f"clock off the tick grid: {us}")
    return us // TICK_US


def now():
    """Exact current time in seconds."""
    return Fraction(now_ticks(), 64)


def fresh_name(prefix="m"):
    _state["counter"] += 1
    return f"{prefix}{_state['counter']}"


def nt():
    import ntcore

    return ntcore.NetworkTableInstance.getDefault()


def nt_maybe_reset(every=4000):
    """Reset the default NT instance every `every` uses.  The caller must not hold NT objects."""
    _state["nt_uses"] += 1
    if _state["nt_uses"] % every == 0:
        nt_reset()


def nt_reset():
    gc.collect()
    nt()._reset()


def exact(x):
    """float -> exact Fraction (floats on the tick grid are exact)."""
    return Fraction(x)
