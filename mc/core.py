"""Explorer core: choice-prefix replay, bounded DFS, result bookkeeping, evidence / replay /
known-findings handling, worker pool.

Everything here is independent of the library under test.  See DESIGN.md section 3.
"""
import hashlib
import json
import os
import shutil
import sys
import tempfile
import time
import traceback

VERIF = os.path.dirname(os.path.dirname(os.path.abspath(__file__)))
KNOWN_FINDINGS = os.path.join(VERIF, "known_findings.txt")


class HarnessError(Exception):
    """Something is wrong with the harness itself (never reported as a VIOLATION)."""


class WorkerPoisoned(Exception):
    """A thread running library code stopped responding (liveness violation).  The process cannot be used any more;
    `info` carries the violation (None when it was already reported by an earlier work item of this process)."""

    def __init__(self, info=None):
        super().__init__("worker poisoned by an unresponsive library thread")
        self.info = info


# --------------------------------------------------------------------------- repo binding


def repo_root():
    return os.path.realpath(os.environ.get("VERIF_REPO", "/repo"))


def bind_repo():
    """Make sure magicbot / robotpy_ext are imported from the tree under check."""
    root = repo_root()
    if root not in sys.path[:1]:
        sys.path.insert(0, root)
    import magicbot
    import robotpy_ext

    for m in (magicbot, robotpy_ext):
        f = os.path.realpath(m.__file__)
        if not f.startswith(root + os.sep):
            raise HarnessError(f"{m.__name__} imported from {f}, expected under {root}")
    return root


# --------------------------------------------------------------------------- scratch


def scratch_root():
    """Per-run scratch directory outside /repo and /verif (removed by main at exit)."""
    d = os.environ.get("VERIF_SCRATCH")
    if not d:
        d = tempfile.mkdtemp(prefix="verif-run-")
        os.environ["VERIF_SCRATCH"] = d
        os.environ["VERIF_SCRATCH_OWNER"] = str(os.getpid())
    return d


def cleanup_scratch():
    d = os.environ.get("VERIF_SCRATCH")
    if d and os.environ.get("VERIF_SCRATCH_OWNER") == str(os.getpid()):
        shutil.rmtree(d, ignore_errors=True)


def enter_worker_dir():
    d = os.path.join(scratch_root(), f"w{os.getpid()}")
    os.makedirs(d, exist_ok=True)
    os.chdir(d)
    return d


# --------------------------------------------------------------------------- chooser / DFS


class Chooser:
    """Replays a prefix of choices, then answers 0 ("the boring answer") at every later point.

    points[i] = (n_alternatives, label, is_deviation_point)
    """

    __slots__ = ("prefix", "i", "points", "choices")

    def __init__(self, prefix=()):
        self.prefix = tuple(prefix)
        self.i = 0
        self.points = []
        self.choices = []

    def choose(self, n, label="", dev=False):
        if n <= 0:
            raise HarnessError(f"choice point {label!r} without alternatives")
        if self.i < len(self.prefix):
            c = self.prefix[self.i]
            if c >= n:
                raise HarnessError(
                    f"replay divergence at point {self.i} ({label!r}): choice {c} of {n}"
                )
        else:
            c = 0
        self.i += 1
        self.points.append((n, label, dev))
        self.choices.append(c)
        return c

    def deviations(self, upto=None):
        k = 0
        for (n, label, dev), c in zip(self.points[:upto], self.choices[:upto]):
            if dev and c:
                k += 1
        return k


def explore_dfs(run, max_dev=None, roots=((),), stop=None):
    """Stateless exhaustive exploration by prefix replay.

    run(chooser) executes one complete execution on fresh objects.  Every alternative at every
    choice point past the replayed prefix is scheduled, except alternatives at deviation points
    once max_dev deviations were already spent.  Returns the number of executions.
    """
    stack = [tuple(r) for r in roots]
    n = 0
    while stack:
        prefix = stack.pop()
        ch = Chooser(prefix)
        run(ch)
        n += 1
        if ch.i < len(prefix):
            raise HarnessError(f"replay divergence: prefix {prefix} not consumed ({ch.i})")
        if stop is not None and stop():
            break
        used = ch.deviations(len(prefix))
        choices = ch.choices
        for i in range(len(prefix), len(ch.points)):
            npts, _label, dev = ch.points[i]
            if npts > 1 and not (dev and max_dev is not None and used >= max_dev):
                base = tuple(choices[:i])
                for alt in range(npts - 1, 0, -1):
                    stack.append(base + (alt,))
            # choices[i] is 0 here, so `used` does not change
    return n


# --------------------------------------------------------------------------- results


def stable_hash(obj):
    return hashlib.sha1(json.dumps(obj, sort_keys=True, default=repr).encode()).hexdigest()[:16]


class Result:
    """Mergeable bookkeeping of one check (or one work item of it)."""

    MAX_VIOL = 40

    def __init__(self):
        self.executions = 0
        self.states = 0
        self.transitions = 0
        self.checks = 0  # oracle evaluations
        self.outcomes = set()  # hashes of distinct observed outcomes
        self.samples = []
        self.violations = {}  # signature-string -> dict(sig, msg, replay, count)
        self.notes = {}
        self.caps = []
        self.bounds = {}
        self.determinism_reruns = 0
        self.extra = {}
        self.state_keys = set()  # hashes of distinct abstract states visited (measured, merged across workers)

    # -- recording
    def outcome(self, obj):
        self.outcomes.add(obj if isinstance(obj, str) and len(obj) <= 16 else stable_hash(obj))

    def sample(self, obj, limit=4):
        if len(self.samples) < limit:
            self.samples.append(obj)

    def violation(self, sig, msg, replay):
        """sig: canonical descriptor of *what* fails (string); the shortest replay is kept."""
        v = self.violations.get(sig)
        size = len(json.dumps(replay, default=repr))
        if v is None:
            if len(self.violations) >= self.MAX_VIOL:
                self.violations.setdefault("__overflow__", dict(sig="__overflow__", msg="more violation kinds than kept", replay={}, count=0, size=0))["count"] += 1
                return
            self.violations[sig] = dict(sig=sig, msg=msg, replay=replay, count=1, size=size)
        else:
            v["count"] += 1
            if size < v["size"]:
                v.update(msg=msg, replay=replay, size=size)

    def visit(self, *key):
        """Record one visited abstract state (for the `states` count of engines without an explicit state graph)."""
        self.state_keys.add(stable_hash(list(key)))

    def add(self, key, n=1):
        self.extra[key] = self.extra.get(key, 0) + n

    # -- merging (worker results come back as dicts)
    def to_dict(self):
        d = dict(self.__dict__)
        d["outcomes"] = sorted(self.outcomes)
        d["state_keys"] = sorted(self.state_keys)
        return d

    def merge(self, d):
        if isinstance(d, Result):
            d = d.to_dict()
        self.executions += d["executions"]
        self.states += d["states"]
        self.transitions += d["transitions"]
        self.checks += d["checks"]
        self.outcomes.update(d["outcomes"])
        self.state_keys.update(d.get("state_keys", ()))
        for s in d["samples"]:
            self.sample(s, limit=6)
        for sig, v in d["violations"].items():
            mine = self.violations.get(sig)
            if mine is None:
                self.violations[sig] = dict(v)
            else:
                mine["count"] += v["count"]
                if v["size"] < mine["size"]:
                    mine.update(msg=v["msg"], replay=v["replay"], size=v["size"])
        for k, v in d["notes"].items():
            self.notes.setdefault(k, v)
        for c in d["caps"]:
            if c not in self.caps:
                self.caps.append(c)
        for k, v in d["bounds"].items():
            self.bounds.setdefault(k, v)
        self.determinism_reruns += d["determinism_reruns"]
        for k, v in d["extra"].items():
            if isinstance(v, (int, float)):
                self.extra[k] = self.extra.get(k, 0) + v
            else:
                self.extra.setdefault(k, v)


# --------------------------------------------------------------------------- known findings


def load_known_findings():
    """Lines:  known: property=<id> sig=<signature> <what fails>
               fixed: property=<id> <commit> <what failed>        (suppresses nothing)"""
    known = {}
    if not os.path.exists(KNOWN_FINDINGS):
        return known
    for line in open(KNOWN_FINDINGS):
        line = line.strip()
        if not line.startswith("known:"):
            continue
        parts = line[len("known:"):].split()
        pid = sig = None
        rest = []
        for p in parts:
            if p.startswith("property=") and pid is None:
                pid = p[9:]
            elif p.startswith("sig=") and sig is None:
                sig = p[4:]
            else:
                rest.append(p)
        if pid and sig:
            known[(pid, sig)] = " ".join(rest)
    return known


# --------------------------------------------------------------------------- reporting


def write_json(path, obj):
    os.makedirs(os.path.dirname(path), exist_ok=True)
    tmp = path + f".tmp{os.getpid()}"
    with open(tmp, "w") as f:
        json.dump(obj, f, indent=1, sort_keys=True, default=repr)
        f.write("\n")
    os.replace(tmp, path)


def finish(pid, tier, seed, res, wall, rule, assumptions, exhaustive=True):
    """Write evidence + replays, print VIOLATION / KNOWN-FINDING lines, return the exit code."""
    known = load_known_findings()
    new, old = [], []
    for sig, v in sorted(res.violations.items()):
        (old if (pid, sig) in known else new).append(v)

    replay_paths = []
    for v in new:
        h = stable_hash([pid, v["sig"]])
        path = os.path.join(VERIF, "replays", f"{pid}-{h}.json")
        write_json(path, dict(property=pid, signature=v["sig"], message=v["msg"], occurrences=v["count"], replay=v["replay"]))
        replay_paths.append(path)
        print(f"VIOLATION property={pid} replay={path}")
        print(f"  signature: {v['sig']}")
        for ln in str(v["msg"]).splitlines()[:12]:
            print(f"  {ln}")
    for v in old:
        print(f"KNOWN-FINDING: property={pid} {v['sig']} - {known[(pid, v['sig'])]} (seen {v['count']}x)")

    if res.state_keys:
        res.states = max(res.states, 0) + len(res.state_keys) if res.extra.get("states_are_additive") else len(res.state_keys)
    cov = dict(
        states=max(res.states, 0),
        transitions=max(res.transitions, 0),
        traces_validated_against_impl=res.executions,
        evaluations=max(res.executions, res.checks),
        distinct_nontrivial=len(res.outcomes),
        oracle_evaluations=res.checks,
        rule=rule,
        samples=res.samples or ["(no sample recorded)"],
        exhaustive=bool(exhaustive and not res.caps),
        bounds=res.bounds,
        caps_hit=res.caps,
        determinism_reruns=res.determinism_reruns,
        notes=res.notes,
        counters=res.extra,
        known_findings_seen=[v["sig"] for v in old],
        new_violation_signatures=[v["sig"] for v in new],
        repo_root=repo_root(),
    )
    ev = dict(
        property_id=pid,
        tier=tier,
        seed=seed,
        level="model_checking",
        coverage=cov,
        assumptions=assumptions,
        wall_s=round(wall, 3),
        violations=len(new),
    )
    # evidence describes /repo itself; runs against another tree (seeded-change self test) write elsewhere
    evdir = "evidence" if repo_root() == os.path.realpath("/repo") else "evidence-other-tree"
    write_json(os.path.join(VERIF, evdir, f"{pid}.json"), ev)
    print(
        f"[{pid}] tier={tier} seed={seed} executions={res.executions} states={res.states} "
        f"transitions={res.transitions} oracle_evals={res.checks} distinct_outcomes={len(res.outcomes)} "
        f"violations={len(new)} known={len(old)} caps={res.caps} wall={wall:.1f}s"
    )
    return 1 if new else 0


# --------------------------------------------------------------------------- worker pool


def _pool_init(env):
    os.environ.update(env)
    sys.path.insert(0, VERIF)
    import logging

    logging.disable(logging.CRITICAL)
    enter_worker_dir()
    import faulthandler

    faulthandler.enable(file=open(os.path.join(scratch_root(), f"crash-{os.getpid()}.txt"), "w"), all_threads=True)
    if os.environ.get("VERIF_DEBUG"):
        faulthandler.dump_traceback_later(int(os.environ.get("VERIF_DEBUG_AFTER", "20")), repeat=True, file=open(f"/tmp/verif-worker-{os.getpid()}.txt", "w"))
    if not os.environ.get("VERIF_DEBUG"):
        # native wpilib / ntcore code prints start-up chatter straight to fd 1 / fd 2
        dn = os.open(os.devnull, os.O_WRONLY)
        os.dup2(dn, 1)
        os.dup2(dn, 2)


def library_frames(exc):
    """Frames of the traceback that lie in the tree under check (innermost last)."""
    root = repo_root() + os.sep
    out = []
    for fs in traceback.extract_tb(exc.__traceback__):
        if os.path.realpath(fs.filename).startswith(root):
            out.append(f"{os.path.relpath(os.path.realpath(fs.filename), root)}:{fs.name}")
    return out


def escaped_library_exception(exc, where):
    """An exception raised inside the library under check escaped into the harness while it was driving a legal
    scenario.  The harness wraps the calls it expects to fail; anything else that comes out of library code is
    unexpected behaviour of the library and is reported as a violation (never as a harness error).
    Returns a Result dict, or None when the exception did not come from library code."""
    frames = library_frames(exc)
    if not frames:
        return None
    res = Result()
    res.executions = res.states = res.transitions = 1
    sig = f"library-raised:{type(exc).__name__}:{frames[-1]}"
    res.violation(sig, f"{type(exc).__name__}: {exc}\n(raised in {frames[-1]} while {where}; the rest of this work item was not explored)\n{traceback.format_exc()[-1500:]}", dict(kind="escaped-exception", where=str(where)[:500], traceback=traceback.format_exc()[-3000:]))
    res.caps.append("a work item was cut short by an exception escaping from the library")
    return res.to_dict()


def _pool_call(args):
    modname, fname, item = args
    try:
        import importlib

        mod = importlib.import_module(modname)
        out = getattr(mod, fname)(item)
        if isinstance(out, Result):
            out = out.to_dict()
        return ("ok", out)
    except WorkerPoisoned as e:
        res = Result()
        res.executions = res.states = res.transitions = 1
        if e.info:
            res.violation(e.info["sig"], e.info["msg"], e.info["replay"])
        res.caps.append("work items were skipped after a library thread stopped responding in this worker process")
        d = res.to_dict()
        return ("ok", d if fname != "explore_level" else dict(res=d, found=[], shape=item["shape"]["name"], first=()))
    except HarnessError as e:
        return ("harness", f"{e}\n{traceback.format_exc()}")
    except BaseException as e:  # noqa
        try:
            d = escaped_library_exception(e, f"{modname}.{fname}({repr(item)[:300]})")
        except Exception:  # noqa
            d = None
        if d is not None:
            if "found" in getattr(e, "__dict__", {}):
                pass
            return ("ok", d if fname != "explore_level" else dict(res=d, found=[], shape=item["shape"]["name"], first=()))
        return ("harness", f"worker crashed on {item!r}: {e!r}\n{traceback.format_exc()}")


def nworkers():
    try:
        n = len(os.sched_getaffinity(0))
    except Exception:
        n = os.cpu_count() or 4
    return max(1, min(16, int(os.environ.get("VERIF_WORKERS", n))))


class WorkerPool:
    """Spawned worker processes (never forked: HAL and ntcore own threads), reusable for several rounds.
    A worker that dies (native crash) breaks the pool and is reported as a harness error instead of a hang."""

    def __init__(self, workers=None, maxtasksperchild=None):
        import multiprocessing as mp
        from concurrent.futures import ProcessPoolExecutor

        env = {k: v for k, v in os.environ.items() if k.startswith("VERIF_") or k in ("PYTHONPYCACHEPREFIX", "PYTHONHASHSEED")}
        scratch_root()
        env["VERIF_SCRATCH"] = os.environ["VERIF_SCRATCH"]
        env["VERIF_SCRATCH_OWNER"] = os.environ["VERIF_SCRATCH_OWNER"]
        self.n = workers or nworkers()
        self.pool = ProcessPoolExecutor(self.n, mp_context=mp.get_context("spawn"), initializer=_pool_init, initargs=(env,))

    def run(self, modname, fname, items, seed=0, weight=None):
        """Run modname.fname(item) for every item; the seed only permutes the work order.  Yields results."""
        import random
        from concurrent.futures import as_completed
        from concurrent.futures.process import BrokenProcessPool

        items = list(items)
        order = list(range(len(items)))
        random.Random(seed).shuffle(order)
        if weight is not None:
            order.sort(key=lambda i: -weight(items[i]))  # heaviest first; the seed permutes ties
        futs = {self.pool.submit(_pool_call, (modname, fname, items[i])): i for i in order}
        try:
            for f in as_completed(futs):
                status, out = f.result()
                if status != "ok":
                    raise HarnessError(out)
                yield out
        except BrokenProcessPool as e:
            pending = [futs[f] for f in futs if not f.done() or f.exception() is not None]
            dumps = ""
            import glob

            for fn in glob.glob(os.path.join(scratch_root(), "crash-*.txt")):
                txt = open(fn).read()
                if txt.strip():
                    dumps += f"\n--- {os.path.basename(fn)} ---\n{txt[:3000]}"
            e = f"{e}{dumps}"
            raise HarnessError(f"a worker process died while running {modname}.{fname} (native crash?); unfinished items: {[repr(items[i])[:200] for i in pending[:3]]} ... {e}")

    def close(self):
        procs = list((getattr(self.pool, "_processes", None) or {}).values())
        self.pool.shutdown(wait=False, cancel_futures=True)
        for p in procs:  # workers own native threads (HAL, ntcore): do not wait for a clean interpreter exit
            try:
                p.kill()
            except Exception:
                pass
        for p in procs:
            try:
                p.join(5)
            except Exception:
                pass

    def __enter__(self):
        return self

    def __exit__(self, *a):
        self.close()


def parallel(modname, fname, items, seed=0, maxtasksperchild=None, workers=None, weight=None):
    items = list(items)
    with WorkerPool(min(workers or nworkers(), max(1, len(items))), maxtasksperchild) as wp:
        yield from wp.run(modname, fname, items, seed=seed, weight=weight)
