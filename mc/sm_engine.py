"""The `sm` engine: bounded exhaustive exploration of magicbot.StateMachine / AutonomousStateMachine
against a reference model and clause monitors (C01, C02, C03, C04, C13).  DESIGN.md section 4.

An execution = a fresh generated machine class + instance, a sequence of external operations chosen by
the explorer, with every state-function invocation asking the explorer what the state does.  Every
operation is mirrored on the reference model and compared immediately.
"""
import itertools
import json
import time
from fractions import Fraction as F

from mc import core, env

import logging

import os as _os

_LOGGER = logging.getLogger("verif-sm")
_MONITORS_ONLY = bool(_os.environ.get("VERIF_SM_MONITORS_ONLY"))
LONG = "long"
ADVANCES = (0, 1, 2, 3, LONG)
ALL_SIGS = [()] + [p for r in (1, 2, 3) for p in itertools.permutations(("tm", "state_tm", "initial_call"), r)]
CANON_SIG = ("tm", "state_tm", "initial_call")


# ------------------------------------------------------------------------------------------ shapes


def S(name, kind="state", first=False, mf=False, dur=None, next=None, next_ref=False, sig=CANON_SIG, where=0, over=None, doc=None):
    return dict(name=name, kind=kind, first=first, mf=mf, dur=dur, next=next, next_ref=next_ref, sig=tuple(sig), where=where, over=over, doc=doc)


def shape(name, states, layout="single", auto=False):
    return dict(name=name, states=states, layout=layout, auto=auto)


def curated_shapes():
    T = "timed"
    sh = [
        shape("plain", [S("a", first=True), S("b")]),
        shape("timed2", [S("a", T, first=True, dur=2, next="b"), S("b", T, dur=2)]),
        shape("mf", [S("a", first=True), S("m", T, dur=2, mf=True, next="a")]),
        shape("dflt", [S("a", first=True), S("t", T, dur=2), S("d", "default")]),
        shape("cyc", [S("a", T, first=True, dur=2, next="b"), S("b", T, dur=1, next="a")]),
        shape("mfd", [S("a", first=True), S("m", T, dur=2, mf=True), S("d", "default")]),
        shape("mfchain", [S("a", T, dur=1, first=True, mf=True, next="m"), S("m", mf=True), S("r")]),
        shape("one", [S("a", T, first=True, dur=2)]),
        shape("zero", [S("a", T, first=True, dur=0, next="b"), S("b", T, dur=0)]),
        shape("tdflt", [S("a", T, first=True, dur=1, next="b"), S("b", T, dur=2), S("d", "default")]),
        shape("refnext", [S("b", T, dur=1), S("a", T, first=True, dur=2, next="b", next_ref=True)]),
    ]
    # inheritance layouts
    sh += [
        shape("split", [S("a", T, first=True, dur=2, next="b", where=0), S("b", T, dur=1, where=1), S("d", "default", where=0)], layout="split"),
        shape("mixin", [S("a", first=True, where=0), S("m", T, dur=2, mf=True, next="a", where=1), S("r", where=2)], layout="mixin"),
        shape("ovr_same", [S("a", T, first=True, dur=2, next="b", over=dict(kind=T, dur=2, next="b")), S("b", T, dur=1)], layout="override"),
        shape("ovr_dur", [S("a", T, first=True, dur=3, next="b", over=dict(kind=T, dur=1, next="b")), S("b", T, dur=1)], layout="override"),
        shape("ovr_untimed", [S("a", first=True, over=dict(kind=T, dur=1, next="b")), S("b", T, dur=2)], layout="override"),
        shape("ovr_timed", [S("a", T, first=True, dur=1, next="b", over=dict(kind="state")), S("b")], layout="override"),
    ]
    return sh


def family_shapes():
    """All machines with <= 2 regular states (kind, duration, must_finish, next link, one first) with and
    without a default state, modulo renaming.  DESIGN.md 'thorough tier'."""
    out = []
    opts1 = []
    for kind in ("state", "timed"):
        for dur in ((None,) if kind == "state" else (0, 1, 2)):
            for mf in (False, True):
                opts1.append((kind, dur, mf))
    n = 0
    for k in (1, 2):
        names = ["a", "b"][:k]
        for combo in itertools.product(opts1, repeat=k):
            nexts_dom = []
            for (kind, dur, mf) in combo:
                nexts_dom.append((None,) + tuple(names) if kind == "timed" else (None,))
            for nexts in itertools.product(*nexts_dom):
                for dflt in (False, True):
                    sts = []
                    for i, nm in enumerate(names):
                        kind, dur, mf = combo[i]
                        sts.append(S(nm, kind, first=(i == 0), mf=mf, dur=dur, next=nexts[i]))
                    if dflt:
                        sts.append(S("d", "default"))
                    n += 1
                    out.append(shape(f"fam{n}", sts))
    return out


# ------------------------------------------------------------------------------------------ class generation


def _fn_src(name, sig, tag, doc=None):
    params = ", ".join(("self",) + tuple(sig))
    kw = ", ".join(f"{p}={p}" for p in sig)
    d = f'        """{doc}"""\n' if doc else ""
    return f"    def {name}({params}):\n{d}        _ctx.on_call(self, {name!r}, {tag!r}, dict({kw}))\n"


def _deco_src(sd, tick_seconds=True):
    kind = sd["kind"]
    if kind == "default":
        return "    @default_state\n"
    args = []
    if kind == "timed":
        args.append(f"duration={float(F(sd['dur'], 64))!r}")
        if sd.get("next") is not None:
            args.append(f"next_state={sd['next']}" if sd.get("next_ref") else f"next_state={sd['next']!r}")
    if sd.get("first"):
        args.append("first=True")
    if sd.get("mf"):
        args.append("must_finish=True")
    if kind == "timed":
        return f"    @timed_state({', '.join(args)})\n"
    if not args:
        return "    @state\n"
    return f"    @state({', '.join(args)})\n"


def class_source(sh, clsname="M"):
    """Python source of the generated class hierarchy (also pasted into replay files)."""
    base = "AutonomousStateMachine" if sh["auto"] else "StateMachine"
    sts = sh["states"]
    layout = sh["layout"]
    blocks = []

    def cls(name, bases, members, final=False):
        src = f"class {name}({', '.join(bases)}):\n"
        if final and sh["auto"]:
            src += "    MODE_NAME = 'gen'\n"
        body = ""
        for sd, tag in members:
            body += _deco_src(sd) + _fn_src(sd["name"], sd["sig"], tag, sd.get("doc")) + "\n"
        if final:
            body += "    def done(self):\n        _ctx.on_done(self)\n        super().done()\n"
        return src + (body or "    pass\n")

    if layout == "single":
        blocks.append(cls(clsname, [base], [(s, "S") for s in sts], final=True))
    elif layout == "split":
        blocks.append(cls(clsname + "Base", [base], [(s, "B") for s in sts if s["where"] == 0]))
        blocks.append(cls(clsname, [clsname + "Base"], [(s, "D") for s in sts if s["where"] != 0], final=True))
    elif layout == "mixin":
        blocks.append(cls(clsname + "A", [base], [(s, "A") for s in sts if s["where"] == 0]))
        blocks.append(cls(clsname + "B", [base], [(s, "B") for s in sts if s["where"] == 1]))
        blocks.append(cls(clsname, [clsname + "A", clsname + "B"], [(s, "C") for s in sts if s["where"] == 2], final=True))
    elif layout == "override":
        basemembers = []
        for s in sts:
            if s.get("over"):
                b = dict(s)
                b.update(s["over"])
                b.setdefault("dur", None)
                if b["kind"] != "timed":
                    b["dur"] = None
                    b["next"] = None
                basemembers.append((b, "B"))
            else:
                basemembers.append((s, "B"))
        blocks.append(cls(clsname + "Base", [base], basemembers))
        blocks.append(cls(clsname, [clsname + "Base"], [(s, "D") for s in sts if s.get("over")], final=True))
    else:
        raise core.HarnessError(f"unknown layout {layout}")
    return "\n".join(blocks)


def build_class(sh, ctx):
    from magicbot.state_machine import AutonomousStateMachine, StateMachine, default_state, state, timed_state

    g = dict(StateMachine=StateMachine, AutonomousStateMachine=AutonomousStateMachine, state=state, timed_state=timed_state, default_state=default_state, _ctx=ctx)
    exec(class_source(sh), g)
    return g["M"]


def expected_tag(sh, name):
    sd = next(s for s in sh["states"] if s["name"] == name)
    lay = sh["layout"]
    if lay == "single":
        return "S"
    if lay == "split":
        return "B" if sd["where"] == 0 else "D"
    if lay == "mixin":
        return "ABC"[sd["where"]]
    return "D" if sd.get("over") else "B"


# ------------------------------------------------------------------------------------------ reference model


class Model:
    """Boring reference model in exact (Fraction) absolute time."""

    def __init__(self, sh):
        self.sh = sh
        self.auto = sh["auto"]
        self.by = {s["name"]: s for s in sh["states"]}
        self.first = next(s["name"] for s in sh["states"] if s["first"])
        d = [s["name"] for s in sh["states"] if s["kind"] == "default"]
        self.default = d[0] if d else None
        self.dur = {}
        for s in sh["states"]:
            if s["kind"] == "timed":
                # the duration defaults to the decorator argument of the (overriding) definition that is in effect
                self.dur[s["name"]] = F(s["dur"], 64)
        self.cur = None
        self.fresh = False
        self.running = False
        self.T0 = None
        self.entry = None
        self.exp = None
        self.req = False
        self.cs = ""
        self.latch = False  # AutonomousStateMachine: period still running
        self.events = []

    def mf(self, n):
        s = self.by[n]
        return s["kind"] == "default" or s["mf"]

    def enter(self, n):
        self.cur = n
        self.fresh = True
        self.cs = n

    def engage(self, initial=None, force=False):
        self.req = True
        if force or self.cur is None or self.cur == self.default:
            self.enter(initial or self.first)

    def done(self):
        self.cur = None
        self.running = False
        self.cs = ""
        self.events.append(("done",))
        if self.auto:
            self.req = False
            self.latch = False

    def execute(self, now, act):
        if not self.running:
            if self.req:
                self.T0 = now
                self.running = True
            elif self.default is None:
                return
        cur = self.cur
        done_called = False
        start = now
        why = "start" if (cur is not None and self.fresh) else "continue"
        if cur is not None and not self.fresh and self.exp is not None and self.exp < now:
            start = self.exp
            nxt = self.by[cur]["next"]
            if nxt is None:
                self.done()
                done_called = True
                if self.req:
                    # a continuously engaged machine starts over at the instant its last state expired
                    self.T0 = start
                    self.running = True
                    self.enter(self.first)
                    cur = self.cur
                    why = "restart"
                else:
                    cur = None
            else:
                self.enter(nxt)
                cur = nxt
                why = "expiry"
        if not (self.req or (cur is not None and self.mf(cur))):
            cur = None
        if cur is None:
            # (a regular state that was selected by an explicit request after done() and is now dropped without ever
            # having run is not a "stop": done() is only invoked when regular states were running)
            if self.running and not done_called:
                self.done()
                done_called = True
            if self.default is not None:
                if self.cur != self.default:
                    # falling back to the default state is not announced through current_state
                    self.cur = self.default
                    self.fresh = True
                cur = self.default
                why = "default"
        if cur is not None:
            initial = self.fresh
            alt = None
            if initial:
                self.fresh = False
                self.entry = start
                d = self.dur.get(cur)
                self.exp = (start + d) if d is not None else None
                if cur == self.default and start != now:
                    alt = F(0)  # unspecified: default state's clock may start at the fallback iteration instead
            tm = (now - self.T0) if self.running else None
            ev = ["call", cur, tm, now - self.entry, initial, why, alt]
            self.events.append(ev)
            a = act(cur)
            if a[0] == "ns":
                self.enter(a[1])
            elif a[0] == "nsn":
                self.enter(a[1])
                self._nested(now, act)
            elif a[0] == "done":
                self.done()
            elif a[0] == "done+ns":
                self.done()
                self.enter(a[1])
            elif a[0] == "done+nsn":
                self.done()
                self.enter(a[1])
                self._nested(now, act)
            elif a[0] == "eng":
                # engage() from inside a state function: the request is consumed by this very iteration
                self.engage()
        self.req = False

    def _nested(self, now, act):
        # next_state_now: the next state function runs immediately, in the same iteration
        saved = self.req
        self.execute(now, act)
        self.req = False if not saved else False

    # AutonomousStateMachine API
    def on_enable(self):
        self.latch = True

    def on_iteration(self, now, act):
        if self.latch:
            self.engage()
            self.execute(now, act)
            self.latch = self.running

    def key(self, now, cap):
        """Canonical state with clocks made relative to `now` and clamped (see DESIGN 3.1)."""

        def rel(x):
            if x is None:
                return None
            v = x - now
            lim = F(cap, 64)
            return str(max(-lim, min(lim, v)))

        return (
            self.cur,
            self.fresh,
            self.running,
            self.req,
            self.cs,
            self.latch,
            rel(self.exp) if self.cur is not None and not self.fresh else None,
            rel(self.entry) if self.cur is not None and not self.fresh else None,
            rel(self.T0) if self.running else None,
            tuple(sorted((k, str(v)) for k, v in self.dur.items())),
        )


# ------------------------------------------------------------------------------------------ one execution


class Ctx:
    """What generated state functions talk to."""

    def __init__(self, ch, sh, maxdev):
        self.ch = ch
        self.sh = sh
        self.events = []
        self.acts = []
        self.dev = 0
        self.maxdev = maxdev
        self.depth = 0
        self.allow_actions = True
        self.nest_limit = 2
        self.main = None
        regs = [s["name"] for s in sh["states"] if s["kind"] != "default"]
        # a state may end the run and still ask for a transition in the same call (the explicitly requested state stays
        # selected: it is where the next engage() starts), or call engage() itself
        # (plain machines: only towards states that are not must_finish - a must_finish state requested after done() runs
        # while the machine is stopped, see DESIGN.md section 6; two actions in one call are beyond the stated alphabet anyway)
        ctargets = regs if sh["auto"] else [s_["name"] for s_ in sh["states"] if s_["kind"] != "default" and not s_["mf"]]
        comp = [("done+ns", n) for n in ctargets] + [("done+nsn", n) for n in ctargets]
        self.menu = [("none",)] + [("ns", n) for n in regs] + [("nsn", n) for n in regs] + [("done",)]
        if sh["auto"]:
            self.menu += comp
            self.rich = [("eng",)]
        else:
            self.rich = [("eng",)] + comp
        # Under a deviation bound the newer ("rich") actions are explored as the *only* in-state deviation of an execution:
        # they are offered while no deviation has been taken yet and use up the whole budget.  Without a bound (merged BFS)
        # they are ordinary alternatives at every state-function call.
        self.kinds = {s["name"]: s["kind"] for s in sh["states"]}

    def on_done(self, sm):
        if self.main is not None and sm is not self.main:
            return
        self.events.append(("done",))

    def on_call(self, sm, nm, tag, kw):
        if self.main is not None and sm is not self.main:
            return  # the sibling instance: passive, not part of the observation
        self.events.append(("call", nm, tag, {k: (F(v) if k != "initial_call" else v) for k, v in kw.items()}))
        can = self.allow_actions and self.kinds[nm] != "default" and self.depth < self.nest_limit and (self.maxdev is None or self.dev < self.maxdev)
        menu = self.menu if can else self.menu[:1]
        if can and (self.maxdev is None or self.dev == 0):
            menu = menu + self.rich
        c = self.ch.choose(len(menu), "act@" + nm, dev=True)
        a = menu[c]
        if a[0] != "none":
            self.dev += 1
            if self.maxdev is not None and a in self.rich:
                self.dev = max(self.dev, self.maxdev)
        self.acts.append(a)
        if a[0] == "ns":
            sm.next_state(a[1])
        elif a[0] == "nsn":
            self.depth += 1
            try:
                sm.next_state_now(a[1])
            finally:
                self.depth -= 1
        elif a[0] == "done":
            sm.done()
        elif a[0] == "done+ns":
            sm.done()
            sm.next_state(a[1])
        elif a[0] == "done+nsn":
            sm.done()
            self.depth += 1
            try:
                sm.next_state_now(a[1])
            finally:
                self.depth -= 1
        elif a[0] == "eng":
            sm.engage()


def op_menu(sh, period_open=None, seen_enable=None):
    regs = [s["name"] for s in sh["states"] if s["kind"] != "default"]
    timed = [s["name"] for s in sh["states"] if s["kind"] == "timed"]
    if sh["auto"]:
        m = []
        if period_open:
            m += [("iter", a) for a in ADVANCES] + [("on_disable",)]
        else:
            m += [("on_enable",)]
            if seen_enable:
                m += [("iter", 1), ("on_disable",)]
        if seen_enable and not period_open:
            pass
        m += [("setdur", n) for n in timed[:1]]
        return m
    m = [("exec", a) for a in ADVANCES]
    m += [("engage", None, False), ("engage", None, True), ("done",), ("on_disable",)]
    nonfirst = [n for n in regs if not next(s for s in sh["states"] if s["name"] == n)["first"]]
    m += [("engage", n, False) for n in nonfirst]
    m += [("engage", n, True) for n in nonfirst[:1]]
    m += [("setdur", n) for n in timed]
    return m


def long_ticks(sh):
    return sum((s["dur"] or 0) for s in sh["states"] if s["kind"] == "timed") + 2


def alt_duration(orig):
    return 3 if orig != 3 else 1


class Exec:
    """Result of one execution."""

    __slots__ = ("trace", "err", "key", "nops", "model", "nest", "sibling")


def run_execution(sh, ch, nops, maxdev, want_key=False, actions_from=0, opset=None, nest=True, sibling=False, want=None):
    """Run `nops` operations (explorer-chosen) on a fresh real machine and on the model in lock step.
    Returns Exec; err = None or (observable, why, message) of the first disagreement."""
    from magicbot.magic_tunable import setup_tunables

    env.align()
    env.nt_maybe_reset()
    ctx = Ctx(ch, sh, maxdev)
    ctx.nest_limit = 2 if nest else 1
    cls = build_class(sh, ctx)
    sm = cls()
    sm.logger = _LOGGER  # MagicRobot injects a logger into every component / mode
    name = env.fresh_name()
    setup_tunables(sm, name)
    sib = None
    if sibling:
        # a second instance of the very same class lives next to the machine under test and is kept busy; nothing it
        # does may be visible in the machine under test (its state functions are passive and are not logged)
        sib = cls()
        sib.logger = _LOGGER
        setup_tunables(sib, env.fresh_name("sib"))
        ctx.main = sm
    ntinst = env.nt()
    base = f"/components/{name}/state/"
    sub_cs = ntinst.getStringTopic(base + "current_state").subscribe("<unset>")
    model = Model(sh)
    lt = long_ticks(sh)
    trace = []
    ex = Exec()
    ex.err = None
    ex.key = None
    period_open = False
    seen_enable = False
    dur_pub = {}
    step_err = None
    for k in range(nops):
        menu = op_menu(sh, period_open, seen_enable)
        if opset is not None:
            menu = [o for o in menu if o[0] in opset or o in opset]
        c = ch.choose(len(menu), "op")
        op = menu[c]
        ctx.events = []
        ctx.acts = []
        ctx.allow_actions = k >= actions_from
        model.events = []
        crashed = None
        now = None
        if sib is not None:
            try:
                if sh["auto"]:
                    if k % 3 == 0:
                        sib.on_enable()
                    sib.on_iteration(0.0)
                else:
                    if k % 3 != 2:
                        sib.engage()
                    sib.execute()
            except Exception as e:  # noqa
                crashed = e
        try:
            if crashed is not None:
                raise crashed
            if op[0] in ("exec", "iter"):
                adv = lt if op[1] == LONG else op[1]
                env.advance(adv)
                now = env.now()
                if op[0] == "exec":
                    sm.execute()
                else:
                    sm.on_iteration(float(now))
            elif op[0] == "engage":
                kw = {}
                if op[1]:
                    kw["initial_state"] = op[1]
                if op[2]:
                    kw["force"] = True
                sm.engage(**kw)
            elif op[0] == "done":
                sm.done()
            elif op[0] == "on_disable":
                sm.on_disable()
            elif op[0] == "on_enable":
                sm.on_enable()
            elif op[0] == "setdur":
                s = op[1]
                orig = F(next(x for x in sh["states"] if x["name"] == s)["dur"], 64)
                if s in dur_pub and model.dur[s] != orig:
                    newv = orig
                else:
                    newv = F(alt_duration(orig * 64), 64)
                ent = dur_pub.get(s)
                if ent is None:
                    ent = dur_pub[s] = ntinst.getEntry(base + s + "_duration")
                ent.setDouble(float(newv))
        except core.HarnessError:
            raise
        except Exception as e:  # the library raised: always a disagreement (the model never raises)
            crashed = e
        # mirror on the model
        acts = iter(list(ctx.acts))
        act = lambda cur: next(acts, ("none",))  # noqa
        if op[0] == "exec":
            model.execute(now, act)
        elif op[0] == "iter":
            model.on_iteration(now, act)
        elif op[0] == "engage":
            model.engage(op[1], op[2])
        elif op[0] in ("done", "on_disable"):
            model.done()
            if op[0] == "on_disable":
                period_open = False
        elif op[0] == "on_enable":
            model.on_enable()
            period_open = True
            seen_enable = True
        elif op[0] == "setdur":
            model.dur[op[1]] = newv
        real = dict(events=ctx.events, is_executing=None, current_state=None, nt_current_state=None)
        if crashed is None:
            try:
                real["is_executing"] = sm.is_executing
                real["current_state"] = sm.current_state
                real["nt_current_state"] = sub_cs.get()
            except Exception as e:
                crashed = e
        step = dict(op=op, now=now, real=real, model=dict(events=[list(e) for e in model.events], running=model.running, cs=model.cs), acts=list(ctx.acts))
        if op[0] == "setdur":
            step["setdur_value"] = float(newv)
        trace.append(step)
        if crashed is not None:
            step["crash"] = repr(crashed)
            step_err = ("crash", _why(model), f"{type(crashed).__name__}: {crashed}")
        else:
            step_err = compare(sh, op, real, model, now)
        if step_err and _MONITORS_ONLY and "crash" not in step:
            # self-test switch (VERIF_SM_MONITORS_ONLY=1): ignore the reference model, so that the clause monitors can be
            # shown to catch known defects on their own
            step["other_disagreement"] = list(step_err)
            step_err = None
        if step_err:
            if want is None or "crash" in step or (props_of(step_err[0], step_err[1], sh["auto"]) & want):
                break
            # a disagreement that does not speak about the property under check: keep going (the model stays the
            # specification), a later step may disagree on something that does
            step["other_disagreement"] = list(step_err)
            step_err = None
    ex.trace = trace
    ex.err = step_err
    ex.nops = nops
    ex.nest = nest
    ex.sibling = sibling
    ex.model = model
    if want_key and step_err is None:
        ex.key = (model.key(env.now(), lt + 4), impl_fingerprint(sm), period_open, seen_enable)
    # drop NT objects before the next execution
    sub_cs.close()
    for e in dur_pub.values():
        e.unpublish()
    return ex


def _why(model):
    for ev in reversed(model.events):
        if ev[0] == "call":
            return ev[5]
    return "none"


def _jsonable(o):
    if isinstance(o, F):
        return str(o)
    if isinstance(o, dict):
        return {str(k): _jsonable(v) for k, v in o.items()}
    if isinstance(o, (list, tuple)):
        return [_jsonable(v) for v in o]
    return o


def impl_fingerprint(sm):
    """Name-independent dump of the non-float part of the implementation state (separates hidden
    booleans / counters / names that the model does not know about)."""

    def dump(v, depth):
        if isinstance(v, (bool, str)) or v is None:
            return v
        if isinstance(v, int):
            return v if abs(v) < 1000 else "int"
        if isinstance(v, float):
            return "f"
        if depth <= 0:
            return type(v).__name__
        if isinstance(v, dict):
            return tuple(sorted((str(k), dump(x, depth - 1)) for k, x in v.items() if not callable(x)))
        if isinstance(v, (list, tuple)):
            return tuple(dump(x, depth - 1) for x in v)
        d = getattr(v, "__dict__", None)
        if d is not None and type(v).__module__.startswith("magicbot"):
            return tuple(sorted((k, dump(x, depth - 1)) for k, x in d.items() if not callable(x)))
        return type(v).__name__

    out = []
    for k, v in sorted(vars(sm).items()):
        if k in ("logger", "_tunables"):
            continue
        out.append((k, dump(v, 3)))
    return tuple(out)


# ------------------------------------------------------------------------------------------ oracle (a): model comparison


def compare(sh, op, real, model, now):
    """First disagreement between the real step and the model step, as (observable, why, message)."""
    rcalls = [e for e in real["events"] if e[0] == "call"]
    mcalls = [e for e in model.events if e[0] == "call"]
    if len(rcalls) != len(mcalls):
        why = mcalls[-1][5] if mcalls else (_why(model) if not rcalls else "none")
        return ("callcount", why, f"state functions run {[e[1] for e in rcalls]}, model {[e[1] for e in mcalls]}")
    kinds = {s["name"]: ("default" if s["kind"] == "default" else ("mf" if s["mf"] else "regular")) for s in sh["states"]}
    for r, m in zip(rcalls, mcalls):
        why = m[5]
        if r[1] != m[1]:
            obs = "state-class" if kinds[r[1]] != kinds[m[1]] else "state"
            return (obs, why, f"ran {r[1]!r}, model {m[1]!r} (reason {why})")
        if r[2] != expected_tag(sh, r[1]):
            return ("definition", why, f"state {r[1]!r} ran the definition tagged {r[2]!r}, expected {expected_tag(sh, r[1])!r}")
        kw = r[3]
        if "initial_call" in kw and kw["initial_call"] != m[4]:
            return ("initial_call", why, f"{r[1]}: initial_call={kw['initial_call']}, model {m[4]} (reason {why})")
        if "state_tm" in kw:
            if kw["state_tm"] != m[3]:
                if m[6] is not None and kw["state_tm"] == m[6]:
                    model.entry = now - m[6]  # adopt the unspecified alternative
                else:
                    return ("state_tm", why, f"{r[1]}: state_tm={kw['state_tm']}, model {m[3]} (reason {why})")
            if kw["state_tm"] < 0:
                return ("state_tm-negative", why, f"{r[1]}: state_tm={kw['state_tm']}")
        if "tm" in kw and m[2] is not None:
            if kw["tm"] != m[2]:
                return ("tm", why, f"{r[1]}: tm={kw['tm']}, model {m[2]} (reason {why})")
    rd = sum(1 for e in real["events"] if e[0] == "done")
    md = sum(1 for e in model.events if e[0] == "done")
    why = _why(model)
    if md > 0 and rd == 0:
        return ("done-not-invoked", why if mcalls else "stop", f"the machine stopped (model) but done() was not invoked during {op}")
    if real["is_executing"] != model.running:
        return ("is_executing", why, f"is_executing={real['is_executing']}, model {model.running}")
    if real["current_state"] != model.cs:
        return ("current_state", why, f"current_state={real['current_state']!r}, model {model.cs!r}")
    if real["nt_current_state"] != real["current_state"]:
        return ("nt-current_state", why, f"NT topic holds {real['nt_current_state']!r}, attribute {real['current_state']!r}")
    return None


# which properties a disagreement on (observable, why) speaks about
def props_of(obs, why, auto=False):
    if auto:
        # C13 speaks about which state functions run, their clocks and is_executing; the current_state string is C04's
        # subject (plain machines) and is not part of the AutonomousStateMachine statement
        return set() if obs in ("current_state", "nt-current_state") else {"C13"}
    if obs == "crash":
        return {"C01", "C02", "C03", "C04"}
    if obs in ("callcount", "state-class"):
        p = {"C01"}
        if why in ("expiry", "restart", "continue"):
            p.add("C02")
        if why in ("start", "restart", "stop", "default", "none"):
            p.add("C04")
        return p
    if obs in ("state", "definition"):
        if why in ("expiry", "restart", "continue"):
            return {"C02"}
        if why == "start":
            return {"C04"}
        return {"C01"}
    if obs == "initial_call":
        return {"C03"} | ({"C04"} if why in ("start", "restart") else set())
    if obs in ("state_tm", "state_tm-negative"):
        return {"C02", "C03"}
    if obs == "tm":
        return {"C03"} | ({"C04"} if why == "start" else set()) | ({"C02"} if why == "restart" else set())
    if obs in ("done-not-invoked", "is_executing", "current_state", "nt-current_state"):
        return {"C04"}
    return {"C01", "C02", "C03", "C04"}


# ------------------------------------------------------------------------------------------ oracle (b): clause monitors


def monitors(sh, trace):
    """Direct transcriptions of property sentences, evaluated on a finished trace (real observations
    only; the model is not consulted).  Returns list of (property, clause, message)."""
    out = []
    by = {s["name"]: s for s in sh["states"]}
    auto = sh["auto"]

    def cls(n):
        s = by[n]
        return "default" if s["kind"] == "default" else ("mf" if s["mf"] else "regular")

    engaged_since = False  # engage*() called since the previous execute() returned
    last_stop_after_engage = False  # done()/on_disable() after the last engage in this window
    idle_confirmed = False  # an un-engaged iteration ran no must_finish state -> machine has stopped
    last_call = None  # (name, state_tm, tm) of the latest call, for monotonicity
    stopped = True  # no regular state may run until engage
    sel_after_done = False  # a state called done() and then asked for a transition: that state stays selected while stopped
    for i, st in enumerate(trace):
        op = st["op"]
        ev = st["real"]["events"]
        calls = [e for e in ev if e[0] == "call"]
        dones = [e for e in ev if e[0] == "done"]
        if auto or "crash" in st:
            break
        if op[0] == "engage":
            engaged_since = True
            last_stop_after_engage = False
            sel_after_done = False
            continue
        if op[0] in ("done", "on_disable"):
            sel_after_done = False
            last_stop_after_engage = True
            # C04: explicit stop
            if not dones:
                out.append(("C04", "done-on-stop", f"step {i}: {op[0]}() did not invoke done()"))
            if st["real"]["is_executing"] or st["real"]["current_state"] != "" or st["real"]["nt_current_state"] != "":
                out.append(("C04", "reset-on-stop", f"step {i}: after {op[0]}() is_executing={st['real']['is_executing']} current_state={st['real']['current_state']!r} nt={st['real']['nt_current_state']!r}"))
            last_call = None
            continue
        if op[0] != "exec":
            continue
        acts = st["acts"]
        n_nsn = sum(1 for a in acts if a[0] == "nsn")
        inner_done = any(a[0].startswith("done") for a in acts)
        regs = [c for c in calls if cls(c[1]) == "regular"]
        mfs = [c for c in calls if cls(c[1]) == "mf"]
        if not engaged_since:
            # C01 (a)
            if regs:
                out.append(("C01", "regular-without-engage", f"step {i}: regular state(s) {[c[1] for c in regs]} ran in an iteration without engage()"))
            # C01 (b)
            if idle_confirmed and mfs:
                out.append(("C01", "runs-after-stop", f"step {i}: must_finish state {[c[1] for c in mfs]} ran after the machine had stopped and without engage()"))
            if not mfs:
                idle_confirmed = True
                # C04: the machine is stopped now
                if st["real"]["is_executing"] or (not sel_after_done and st["real"]["current_state"] not in ("",) and cls(st["real"]["current_state"]) != "default"):
                    out.append(("C04", "reset-on-unengaged-stop", f"step {i}: un-engaged iteration ran no must_finish state but is_executing={st['real']['is_executing']} current_state={st['real']['current_state']!r}"))
        else:
            idle_confirmed = False
            if not last_stop_after_engage and not inner_done:
                # C01 (c)
                if len(calls) != 1 + n_nsn:
                    out.append(("C01", "one-state-per-engaged-iteration", f"step {i}: engaged iteration ran {[c[1] for c in calls]} with {n_nsn} next_state_now action(s)"))
        # C02 / C03: clocks never negative
        for c in calls:
            kw = c[3]
            if "state_tm" in kw and F(kw["state_tm"]) < 0:
                out.append(("C02", "state_tm-nonneg", f"step {i}: {c[1]} got state_tm={kw['state_tm']}"))
                out.append(("C03", "state_tm-nonneg", f"step {i}: {c[1]} got state_tm={kw['state_tm']}"))
            if "tm" in kw and F(kw["tm"]) < 0 and cls(c[1]) != "default":
                out.append(("C03", "tm-nonneg", f"step {i}: {c[1]} got tm={kw['tm']}"))
        # C04: while regular states are running is_executing is True and current_state names a state
        if calls and cls(calls[-1][1]) != "default" and not inner_done and not sel_after_done and st["real"]["current_state"] != "":
            if not st["real"]["is_executing"]:
                out.append(("C04", "executing-while-running", f"step {i}: {calls[-1][1]} ran and the machine did not stop, but is_executing is False"))
        engaged_since = False
        last_stop_after_engage = False
        if any(a[0].startswith("done+") for a in acts):
            sel_after_done = True
    out += chain_monitor(sh, trace)
    return out


def chain_monitor(sh, trace):
    """C02, last sentence, transcribed directly: in a continuously engaged run without explicit transitions, stops or duration edits,
    every timed state is entered exactly when its predecessor's duration has elapsed (entry instant = now - state_tm), so a chain lasts
    the sum of its durations whatever the clock steps, and repetitions of a cycle are equally long."""
    if sh["auto"]:
        return []
    by = {s["name"]: s for s in sh["states"]}
    if any(s.get("over") for s in sh["states"]):
        return []
    entries = []  # (state, absolute entry instant)
    pending_engage = False
    for st in trace:
        op = st["op"]
        if "crash" in st:
            return []
        if op[0] == "engage":
            if op[1] or op[2]:
                return []
            pending_engage = True
            continue
        if op[0] != "exec":
            return []  # done / on_disable / duration edit: not a plain continuous run
        if not pending_engage or any(a[0] != "none" for a in st["acts"]):
            return []
        pending_engage = False
        now = F(st["now"])
        for e in st["real"]["events"]:
            if e[0] != "call" or by[e[1]]["kind"] == "default":
                continue
            kw = e[3]
            if kw.get("initial_call") and "state_tm" in kw:
                entries.append((e[1], now - F(kw["state_tm"]), now))
    out = []
    for (a, ta, _na), (b, tb, nb) in zip(entries, entries[1:]):
        sa = by[a]
        if sa["kind"] != "timed":
            continue
        d = F(sa["dur"], 64)
        nxt = sa["next"] if sa["next"] is not None else next(s["name"] for s in sh["states"] if s["first"])
        if b != nxt:
            out.append(("C02", "chain-successor", f"after timed state {a} the next state entered is {b}, expected {nxt}"))
        elif tb != ta + d:
            out.append(("C02", "chain-drift", f"{a} was entered at {ta} with duration {d}; its successor {b} was entered at {tb} (observed at {nb}), expected {ta + d}"))
    return out


# ------------------------------------------------------------------------------------------ exploration drivers


def _sig_of(err, sh):
    obs, why, _msg = err
    return f"{obs}:{why}"


def explore_shape(item):
    """Worker entry: flat (unmerged) DFS below the given root prefixes.  item = dict(shape, nops, maxdev, roots, props, seed)."""
    core.bind_repo()
    env.init()
    sh = item["shape"]
    res = core.Result()
    nops, maxdev = item["nops"], item["maxdev"]
    record = _recorder(sh, res, set(item["props"]), maxdev, item.get("seed", 0))

    def run(ch):
        ex = run_execution(sh, ch, nops, maxdev, want=set(item["props"]))
        record(ex, ch, "flat", maxdev)
        if not res.samples and len(ch.choices) > nops:
            res.sample(dict(shape=sh["name"], source=class_source(sh), ops=[s["op"] for s in ex.trace], acts=[s["acts"] for s in ex.trace], observed=norm_obs(ex.trace)))

    core.explore_dfs(run, max_dev=maxdev, roots=item.get("roots") or [()])
    res.transitions += res.checks
    return res


def _recorder(sh, res, want, maxdev_default, seed):
    rerun_every = 997
    rerun_off = seed % rerun_every
    counter = [0]

    def record(ex, ch, mode, md, opset=None):
        res.executions += 1
        res.checks += len(ex.trace)
        if ex.err is not None:
            obs, why, msg = ex.err
            ps = props_of(obs, why, sh["auto"]) & want
            if ps:
                rp = dict(engine="sm", shape=sh, choices=list(ch.choices), nops=ex.nops, maxdev=md, opset=opset, nest=ex.nest, sibling=ex.sibling, mode=mode, failing_step=len(ex.trace) - 1, trace=_jsonable(ex.trace), source=class_source(sh))
                res.violation(f"{obs}:{why}", f"shape {sh['name']} ({mode}), step {len(ex.trace)-1} {ex.trace[-1]['op']}: {msg}\n" + fmt_trace(ex.trace), rp)
        for (p, clause, msg) in monitors(sh, ex.trace):
            if p in want:
                rp = dict(engine="sm", shape=sh, choices=list(ch.choices), nops=ex.nops, maxdev=md, opset=opset, nest=ex.nest, sibling=ex.sibling, mode=mode, trace=_jsonable(ex.trace), source=class_source(sh))
                res.violation(f"monitor:{clause}", f"shape {sh['name']} ({mode}): {msg}\n" + fmt_trace(ex.trace), rp)
        res.outcome(core.stable_hash(norm_obs(ex.trace)))
        counter[0] += 1
        if counter[0] % rerun_every == rerun_off:
            ex2 = run_execution(sh, core.Chooser(ch.choices), ex.nops, md, opset=opset, nest=getattr(ex, "nest", True), sibling=getattr(ex, "sibling", False), want=want)
            a, b = norm_obs(ex.trace), norm_obs(ex2.trace)
            if a != b:
                diff = [(x, y) for x, y in zip(a, b) if x != y][:2]
                raise core.HarnessError(f"non-deterministic replay for shape {sh['name']} choices {ch.choices}: {diff} (trace lengths {len(a)} / {len(b)})")
            res.determinism_reruns += 1

    return record


def explore_level(item):
    """Worker entry for one chunk of one BFS level: expand every prefix by one operation (all in-state
    action alternatives), return the canonical key of every successor."""
    core.bind_repo()
    env.init()
    sh = item["shape"]
    res = core.Result()
    record = _recorder(sh, res, set(item["props"]), None, item.get("seed", 0))
    d = item["depth"]
    found = []
    for prefix in item["prefixes"]:
        def run(ch):
            ex = run_execution(sh, ch, d + 1, item.get("maxdev"), want_key=True, opset=item.get("opset"), nest=item.get("nest", True), sibling=item.get("sibling", False), want=set(item["props"]))
            record(ex, ch, item.get("label", "bfs"), item.get("maxdev"), item.get("opset"))
            res.transitions += 1
            if ex.key is not None:
                found.append((ex.key, tuple(ch.choices)))
        core.explore_dfs(run, max_dev=item.get("maxdev"), roots=[tuple(prefix)])
    for p1, p2, n1, n2 in item.get("probes", ()):
        o1 = probe_obs(sh, tuple(p1), n1, item.get("nest", True))
        o2 = probe_obs(sh, tuple(p2), n2, item.get("nest", True))
        res.add("merge_probes")
        if o1 is None or o2 is None:
            continue
        if o1 != o2:
            res.violation("merge-unsound", f"shape {sh['name']}: histories {p1} and {p2} were merged but behave differently: {o1} vs {o2}", dict(engine="sm", shape=sh, p1=list(p1), p2=list(p2)))
    return dict(res=res.to_dict(), found=found, shape=sh["name"], first=tuple(item["prefixes"][0]) if item["prefixes"] else ())


def initial_key(sh):
    core.bind_repo()
    env.init()
    return run_execution(sh, core.Chooser(()), 0, None, want_key=True).key


def bfs_all(pool, res, shapes_depths, pid, seed, probe_every, opset=None, maxdev=None, label="bfs", nest=False, sibling=False):
    """Level-synchronous BFS with canonical-state merging for several shapes at once; the frontier of each
    level is expanded by the worker pool, de-duplication happens here."""
    seen = {}
    frontier = {}
    depth_of = {}
    byname = {}
    for sh, depth in shapes_depths:
        if depth <= 0:
            continue
        byname[sh["name"]] = sh
        seen[sh["name"]] = {initial_key(sh): ()}  # the initial state does not depend on the op set
        frontier[sh["name"]] = [()]
        depth_of[sh["name"]] = depth
    info = {n: dict(depth=0, closed=False) for n in byname}
    pending_probes = {n: [] for n in byname}
    level = 0
    while any(frontier.values()):
        items = []
        for n, fr in frontier.items():
            if not fr or level >= depth_of[n]:
                frontier[n] = []
                continue
            chunk = 12
            for k in range(0, len(fr), chunk):
                items.append(dict(shape=byname[n], prefixes=fr[k:k + chunk], depth=level, props=_want(pid), seed=seed, probes=pending_probes[n][:4] if k == 0 else (), opset=opset, maxdev=maxdev, label=label, nest=nest, sibling=sibling))
            pending_probes[n] = []
        if not items:
            break
        newfr = {n: [] for n in byname}
        outs = list(pool.run("mc.sm_engine", "explore_level", items, seed=seed))
        # merge deterministically (independent of completion order)
        outs.sort(key=lambda o: (o["shape"], o["first"]))
        for o in outs:
            res.merge(o["res"])
            n = o["shape"]
            for key, choices in sorted(o["found"], key=lambda kc: (len(kc[1]), kc[1])):
                rep = seen[n].get(key)
                if rep is None:
                    seen[n][key] = choices
                    newfr[n].append(choices)
                elif probe_every and rep != choices and int(core.stable_hash([key, choices]), 16) % probe_every == 0 and len(pending_probes[n]) < 8:
                    pending_probes[n].append((rep, choices, _nops_of(rep, seen, n, level), level + 1))
        for n in byname:
            if frontier[n]:
                info[n]["depth"] = level + 1
            frontier[n] = newfr[n] if level + 1 < depth_of[n] else []
            if not newfr[n] and info[n]["depth"] == level + 1:
                info[n]["closed"] = True
        level += 1
    for n in byname:
        res.states += len(seen[n])
        info[n]["states"] = len(seen[n])
    res.bounds[label] = info


_nops_cache = {}


def _nops_of(rep, seen, n, level):
    # representatives are stored when first reached: the number of operations equals the level at which
    # they were stored; recover it by counting "op" points lazily in the worker instead
    return None


PROBES = [
    [("exec", 1), ("exec", 1), ("exec", 2)],
    [("engage", None, False), ("exec", 1), ("engage", None, False), ("exec", LONG), ("engage", None, False), ("exec", 1)],
    [("exec", 3), ("engage", None, False), ("exec", 0), ("exec", 1)],
]


def probe_obs(sh, prefix, nops_prefix=None, nest=True):
    """Relativized observations of fixed continuations run after a history (merge-soundness probe)."""
    out = []
    if nops_prefix is None:
        nops_prefix = _count_ops(sh, prefix, nest)
        if nops_prefix is None:
            return None
    for probe in PROBES:
        out.append(_run_with_tail(sh, prefix, nops_prefix, probe, nest))
    return out


def _count_ops(sh, prefix, nest=True):
    ch = core.Chooser(prefix)
    # run with a large op budget but stop when the prefix is consumed
    n = 0
    # cheap way: replay increasing op counts until all prefix choices are consumed
    while True:
        ch = core.Chooser(prefix)
        # want=set(): never cut at a disagreement with the model (a probe observes the implementation only)
        ex = run_execution(sh, ch, n, None, nest=nest, want=set())
        if ch.i >= len(prefix):
            return n
        if ex.err is not None and ex.err[0] == "crash":
            return None  # the library raised inside the prefix: reported by the exploration itself, nothing to probe
        n += 1
        if n > 40:
            raise core.HarnessError("cannot locate op boundary of prefix")


def _run_with_tail(sh, prefix, nops_prefix, tail_ops, nest=True):
    if sh["auto"]:
        return None
    menu = op_menu(sh)
    idx = [menu.index(op) for op in tail_ops]
    # tail choices: op index, then 0 for every in-state point (Chooser answers 0 beyond the prefix,
    # so feed explicit op choices through a chooser subclass)
    class TailChooser(core.Chooser):
        def __init__(self, prefix, tail):
            super().__init__(prefix)
            self.tail = list(tail)
        def choose(self, n, label="", dev=False):
            if self.i >= len(self.prefix) and label == "op" and self.tail:
                c = self.tail.pop(0)
                self.i += 1
                self.points.append((n, label, dev))
                self.choices.append(c)
                return c
            return super().choose(n, label, dev)
    ch = TailChooser(prefix, idx)
    ex = run_execution(sh, ch, nops_prefix + len(tail_ops), None, nest=nest, want=set())
    obs = []
    for st in ex.trace[nops_prefix:]:
        calls = [(e[1], e[3].get("initial_call")) for e in st["real"]["events"] if e[0] == "call"]
        obs.append((calls, st["real"]["is_executing"], st["real"]["current_state"], len([e for e in st["real"]["events"] if e[0] == "done"]) > 0))
    return obs


def norm_obs(trace):
    """Observations of a trace that the properties specify (tm of a default state outside an engagement is
    absolute-clock dependent and unspecified, so it is dropped)."""
    out = []
    for s in trace:
        mcalls = [e for e in s["model"]["events"] if e[0] == "call"]
        rcalls = [e for e in s["real"]["events"] if e[0] == "call"]
        calls = []
        for i, e in enumerate(rcalls):
            kw = dict(e[3])
            if "tm" in kw and (len(mcalls) != len(rcalls) or mcalls[i][2] is None):
                kw.pop("tm")
            calls.append([e[1], e[2], sorted((k, str(v)) for k, v in kw.items())])
        dones = sum(1 for e in s["real"]["events"] if e[0] == "done")
        out.append([list(s["op"]), [list(a) for a in s["acts"]], calls, dones, s["real"]["is_executing"], s["real"]["current_state"], s["real"]["nt_current_state"], s.get("crash")])
    return out


def fmt_trace(trace):
    lines = []
    for i, s in enumerate(trace):
        calls = []
        for e in s["real"]["events"]:
            if e[0] == "call":
                calls.append(f"{e[1]}({', '.join(f'{k}={v}' for k, v in e[3].items())})")
            else:
                calls.append("done()")
        mcalls = []
        for e in s["model"]["events"]:
            if e[0] == "call":
                mcalls.append(f"{e[1]}(tm={e[2]}, state_tm={e[3]}, initial_call={e[4]}; {e[5]})")
            else:
                mcalls.append("done()")
        lines.append(
            f"  {i}: {s['op']} now={s['now']} acts={s['acts']}\n"
            f"       real : {calls} is_executing={s['real']['is_executing']} current_state={s['real']['current_state']!r}"
            + (f" CRASH {s['crash']}" if 'crash' in s else "")
            + f"\n       model: {mcalls} is_executing={s['model']['running']} current_state={s['model']['cs']!r}"
        )
    return "\n".join(lines)


# ------------------------------------------------------------------------------------------ check front end


TIMING_OPS = ["exec", "iter", "setdur", "on_enable", ("engage", None, False), ("done",), ("on_disable",)]


def _want(pid):
    """Properties whose disagreements / monitor findings are reported.  Normally just the check's own property; the
    maintenance switch VERIF_SM_WANT=C01,C02,C03,C04 reports all of them from one exploration (when that run is silent,
    each single-property run over the same shapes is silent too, because without a reported disagreement no execution is cut)."""
    return _os.environ.get("VERIF_SM_WANT", pid).split(",")


def run_check(pid, tier, seed, shapes, nops, maxdev, bfs_depth, rule_extra="", probe_every=0, sig_names=(), timing_depth=0, light_names=(), light_nops=3, light_bfs=3, light_timing=8, sibling_depth=10):
    t0 = time.time()
    if _os.environ.get("VERIF_SM_SHAPES"):  # maintenance switch: restrict the run to the named shapes
        only = set(_os.environ["VERIF_SM_SHAPES"].split(","))
        shapes = [sh for sh in shapes if sh["name"] in only]
    items = []
    bfs = []
    light = set(light_names)
    for sh in shapes:
        less = 1 if sh["name"] in sig_names else 0  # the call adapter is history independent
        if sh["name"] in light:  # the large generated family gets a shallower flat pass; BFS depths stay
            less = max(less, nops - light_nops)
        nroot = len(op_menu(sh, False, False))
        md = min(maxdev, 1) if sh["name"] in light else maxdev
        for r in range(nroot):
            items.append(dict(shape=sh, nops=nops - less, maxdev=md, roots=[(r,)], props=_want(pid), seed=seed))
        bfs.append((sh, (bfs_depth - 2 * less) if sh["name"] not in light else light_bfs))
    res = core.Result()
    import sys as _sys

    def progress(msg):
        print(f"[{pid}] {time.time() - t0:7.1f}s {msg}", file=_sys.stderr, flush=True)

    with core.WorkerPool() as pool:
        progress(f"flat DFS: {len(items)} work items over {len(shapes)} shapes")
        for d in pool.run("mc.sm_engine", "explore_shape", items, seed=seed, weight=lambda it: it["nops"]):
            res.merge(d)
        progress(f"flat DFS done: {res.executions} executions; merged BFS")
        bfs_all(pool, res, bfs, pid, seed, probe_every)
        progress(f"merged BFS done: {res.states} states, {res.transitions} transitions; timing BFS")
        if timing_depth:
            tshapes = [(sh, timing_depth if sh["name"] not in light else light_timing) for sh in shapes if any(st["kind"] == "timed" for st in sh["states"]) and sh["name"] not in sig_names]
            bfs_all(pool, res, tshapes, pid, seed, 0, opset=TIMING_OPS, maxdev=0, label="timing_bfs")
            progress("timing BFS done; timing BFS next to a busy sibling instance of the same class")
            sshapes = [(sh, min(depth, sibling_depth)) for sh, depth in tshapes if sh["name"] not in light]
            bfs_all(pool, res, sshapes, pid, seed, 0, opset=TIMING_OPS, maxdev=0, label="sibling_timing_bfs", sibling=True)
    res.bounds.update(flat_ops=nops, flat_deviation_bound=maxdev, bfs_depth=bfs_depth, shapes=len(shapes), tick="1/64 s", advances=list(ADVANCES), timing_bfs_depth=timing_depth, generated_family_shapes=len(light), family_flat_ops=light_nops if light else None, family_flat_deviation_bound=1 if light else None, family_bfs_depth=light_bfs if light else None, family_timing_bfs_depth=light_timing if light else None)
    rule = (
        "for each generated machine shape: every sequence of `flat_ops` external operations (engage variants, done, on_disable, "
        "duration-topic edits, execute after a clock advance of 0/1/2/3/long ticks) with at most `flat_deviation_bound` non-trivial in-state "
        "actions (next_state / next_state_now / done / engage, asked at every state-function invocation), run on a fresh real machine and the "
        "reference model in lock step (prefix-replay DFS); then breadth-first search with canonical state merging to `bfs_depth` operations "
        "with an unbounded number of in-state actions (one per state-function call; the target of a next_state_now is passive there), and a second, deeper BFS (`timing_bfs`) over the clock / engage / done / duration-edit operations with passive states. states = distinct canonical states, transitions = operations executed and compared, "
        "distinct outcome = distinct observed trace (calls with arguments, is_executing, current_state per step). " + rule_extra
    )
    assumptions = [
        "time is the paused HAL simulation clock on a 1/64 s grid, so float time arithmetic in the library is exact",
        "external next_state() without engage(), engage(initial_state=<default state>) and actions taken by a default state are outside the alphabet (unspecified)",
        "tm passed to a default state outside an engagement and the start of a default state's clock after an expiry are unspecified and not compared",
        "BFS merging uses the reference-model state plus a name-independent dump of the non-float implementation fields; merge-soundness probes and the unmerged flat DFS guard it",
    ]
    attach_pytests(res, pid)
    return core.finish(pid, tier, seed, res, time.time() - t0, rule, assumptions)


def nops_for(sh, nops):
    return nops


def pytest_source(rp, pid="", sig=""):
    """A plain pytest function that replays one recorded execution without the explorer."""
    sh = rp["shape"]
    trace = rp["trace"]
    k = rp.get("failing_step", len(trace) - 1)
    script = [list(a) for st in trace for a in st["acts"]]
    lt = long_ticks(sh)
    L = []
    L.append(f"# Stand-alone reproduction generated by /verif for property {pid} (signature {sig}).")
    L.append("# Run with:  cd <repository> && /venv/bin/python -m pytest -q -p no:cacheprovider <this file>")
    L.append("import logging\nimport hal.simulation as hs\nimport ntcore\nimport wpilib")
    L.append("from magicbot.state_machine import StateMachine, AutonomousStateMachine, state, timed_state, default_state")
    L.append("from magicbot.magic_tunable import setup_tunables\n")
    L.append("TICK_US = 15625  # 1/64 s: exact in binary floating point")
    L.append("CALLS = []")
    L.append(f"SCRIPT = {script!r}  # what each state-function invocation does, in invocation order\n")
    L.append("class _Ctx:\n    def on_done(self, sm):\n        CALLS.append(('done',))\n    def on_call(self, sm, name, tag, kw):\n        CALLS.append((name, dict(kw)))\n        act = SCRIPT.pop(0) if SCRIPT else ['none']\n        if act[0] == 'ns':\n            sm.next_state(act[1])\n        elif act[0] == 'nsn':\n            sm.next_state_now(act[1])\n        elif act[0] == 'done':\n            sm.done()\n        elif act[0] == 'done+ns':\n            sm.done()\n            sm.next_state(act[1])\n        elif act[0] == 'done+nsn':\n            sm.done()\n            sm.next_state_now(act[1])\n        elif act[0] == 'eng':\n            sm.engage()\n\n_ctx = _Ctx()\n")
    L.append(rp.get("source") or class_source(sh))
    L.append("\ndef test_replay():")
    L.append("    hs.pauseTiming()\n    rem = wpilib.RobotController.getFPGATime() % TICK_US\n    if rem:\n        hs.stepTimingAsync(TICK_US - rem)")
    name = "replay_" + core.stable_hash([sh["name"], rp.get("choices")])
    L.append(f"    sm = M()\n    sm.logger = logging.getLogger('replay')\n    setup_tunables(sm, {name!r})")
    L.append(f"    nt = ntcore.NetworkTableInstance.getDefault()")
    for i, st in enumerate(trace):
        op = st["op"]
        L.append(f"    # step {i}: {tuple(op)}")
        if i == k:
            L.append("    del CALLS[:]")
        if op[0] in ("exec", "iter"):
            adv = lt if op[1] == LONG else op[1]
            if adv:
                L.append(f"    hs.stepTimingAsync({adv} * TICK_US)")
            L.append("    sm.execute()" if op[0] == "exec" else "    sm.on_iteration(wpilib.Timer.getFPGATimestamp())")
        elif op[0] == "engage":
            args = []
            if op[1]:
                args.append(f"initial_state={op[1]!r}")
            if op[2]:
                args.append("force=True")
            L.append(f"    sm.engage({', '.join(args)})")
        elif op[0] in ("done", "on_disable", "on_enable"):
            L.append(f"    sm.{op[0]}()")
        elif op[0] == "setdur":
            L.append(f"    nt.getEntry('/components/{name}/state/{op[1]}_duration').setDouble({st.get('setdur_value')!r})")
    # expectation of the reference model for the failing step
    st = trace[k]
    mcalls = [e for e in st["model"]["events"] if e[0] == "call"]
    L.append("    # what the reference model (the property) expects from the last step:")
    L.append("    ran = [c[0] for c in CALLS if c[0] != 'done']")
    L.append(f"    assert ran == {[e[1] for e in mcalls]!r}, ran")
    for j, e in enumerate(mcalls):
        if e[2] is not None:
            L.append(f"    args = [c[1] for c in CALLS if c[0] != 'done'][{j}]")
            L.append(f"    assert args.get('tm', {float(F(e[2]))!r}) == {float(F(e[2]))!r}, args")
            L.append(f"    assert args.get('state_tm', {float(F(e[3]))!r}) == {float(F(e[3]))!r}, args")
            L.append(f"    assert args.get('initial_call', {e[4]!r}) == {e[4]!r}, args")
    if any(e[0] == "done" for e in st["model"]["events"]):
        L.append("    assert ('done',) in CALLS, 'done() was not invoked'")
    L.append(f"    assert sm.is_executing == {st['model']['running']!r}")
    L.append(f"    assert sm.current_state == {st['model']['cs']!r}")
    return "\n".join(L) + "\n"


def attach_pytests(res, pid):
    for sig, v in res.violations.items():
        rp = v.get("replay") or {}
        if rp.get("engine") == "sm" and rp.get("trace") and "pytest" not in rp:
            try:
                rp["pytest"] = pytest_source(rp, pid, sig)
            except Exception as e:  # noqa  (never let the convenience artefact break the report)
                rp["pytest"] = f"# could not generate: {e!r}"


def replay(path):
    core.bind_repo()
    env.init()
    r = json.load(open(path))["replay"]
    sh = r["shape"]
    for s in sh["states"]:
        s["sig"] = tuple(s["sig"])
    ch = core.Chooser(r["choices"])
    ex = run_execution(sh, ch, r["nops"], r.get("maxdev"), opset=[tuple(o) if isinstance(o, list) else o for o in r["opset"]] if r.get("opset") else None, nest=r.get("nest", True), sibling=r.get("sibling", False))
    print(class_source(sh))
    print(fmt_trace(ex.trace))
    mon = monitors(sh, ex.trace)
    if ex.err:
        print("DISAGREEMENT:", ex.err)
    for m in mon:
        print("MONITOR:", m)
    return 1 if (ex.err or mon) else 0
