"""Entry point of ./check (see DESIGN.md 3.6)."""
import argparse
import atexit
import importlib
import logging
import os
import sys
import time
import traceback

HERE = os.path.dirname(os.path.abspath(__file__))
VERIF = os.path.dirname(HERE)
sys.path.insert(0, VERIF)


def main():
    ap = argparse.ArgumentParser()
    ap.add_argument("property")
    ap.add_argument("--tier", default=os.environ.get("VERIF_TIER") or "quick", choices=["quick", "thorough"])
    ap.add_argument("--replay", default=None)
    args = ap.parse_args()
    pid = args.property.upper()
    if args.replay:
        args.replay = os.path.abspath(args.replay)
    try:
        seed = int(os.environ.get("VERIF_SEED", "0") or 0)
    except ValueError:
        seed = 0

    from mc import core

    # byte code of the tree under check is never taken from a stale __pycache__
    scratch = core.scratch_root()
    atexit.register(core.cleanup_scratch)
    pyc = os.path.join(scratch, "pyc")
    os.makedirs(pyc, exist_ok=True)
    sys.pycache_prefix = pyc
    os.environ["PYTHONPYCACHEPREFIX"] = pyc
    sys.dont_write_bytecode = False
    os.environ.setdefault("PYTHONHASHSEED", "0")
    logging.disable(logging.CRITICAL)
    core.enter_worker_dir()

    t0 = time.time()
    try:
        core.bind_repo()
        mod = importlib.import_module(f"mc.props.{pid.lower()}")
        if args.replay:
            rc = mod.replay(args.replay)
        else:
            rc = mod.main(args.tier, seed)
        sys.stdout.flush()
        return rc
    except core.WorkerPoisoned as e:
        res = core.Result()
        res.executions = res.states = res.transitions = 1
        if e.info:
            res.violation(e.info["sig"], e.info["msg"], e.info["replay"])
        return core.finish(pid, args.tier, seed, res, time.time() - t0, "the check was cut short by an unresponsive library thread", [], exhaustive=False)
    except core.HarnessError as e:
        print(f"HARNESS-ERROR property={pid}: {e}")
        return 2
    except Exception as e:  # noqa
        d = None
        try:
            d = core.escaped_library_exception(e, f"running check {pid} in the main process")
        except Exception:  # noqa
            pass
        if d is not None:
            res = core.Result()
            res.merge(d)
            return core.finish(pid, args.tier, seed, res, time.time() - t0, "the check was cut short by an exception escaping from the library under check (see caps_hit)", [], exhaustive=False)
        print(f"HARNESS-ERROR property={pid}: {e!r}")
        traceback.print_exc()
        return 2


if __name__ == "__main__":
    rc = main()
    sys.stdout.flush()
    sys.stderr.flush()
    # wpilib / ntcore background threads must not keep the process alive or crash at teardown
    from mc import core

    core.cleanup_scratch()
    os._exit(rc)
