"""Robot-loop driver: runs the real MagicRobot.startCompetition() in a worker thread under a baton
(exactly one of {harness, robot thread} runs at any time), with a harness-owned clock, driver station,
NetworkTables and fault plan.  DESIGN.md 3.4.  Used by C05, C06, C07, C10, C11 (and C14's run() part).
"""
import builtins
import collections
import gc
import importlib
import os
import queue
import sys
import threading

from mc import core

MODES = "datx"  # disabled, autonomous, teleop, test
MODE_NT = {"d": "disabled", "a": "auto", "t": "teleop", "x": "test"}
DS_WORD = {"d": (False, False, False), "a": (True, True, False), "t": (True, False, False), "x": (True, False, True),
           # disabled while the driver station still has autonomous / test selected (what a real DS sends when
           # the operator presses "disable" in those modes)
           "e": (False, True, False), "f": (False, False, True)}
EFFECTIVE = {"d": "d", "a": "a", "t": "t", "x": "x", "e": "d", "f": "d"}
BATON_TIMEOUT = 45.0
NUDGE_AFTER = 8.0


class Boom(Exception):
    """The injected user fault."""


class BadStr(Boom):
    """An injected fault whose message cannot be rendered: str() of it raises."""

    def __str__(self):
        raise TypeError("can only concatenate str (not \"int\") to str")


class _G:
    log = []
    cnt = collections.Counter()
    fault = {}
    hooks = []
    fbval = None
    evq = queue.Queue()
    installed = False
    poisoned = False
    lives = 0
    pokes = 0
    nudged_lives = 0
    harness_exc = None


def cb(site, obj=None, extra=None):
    """Every generated user callback calls this first."""
    import wpilib

    _G.cnt[site] += 1
    n = _G.cnt[site]
    rec = [site, wpilib.RobotController.getFPGATime(), extra]
    _G.log.append(rec)
    try:
        for h in _G.hooks:
            h(site, obj, rec, n)
    except BaseException as e:  # noqa  (a bug in the harness must never be swallowed by the robot's FMS handling)
        _G.harness_exc = e
        raise
    pat = _G.fault.get(site)
    if pat is not None and (pat == "every" or n == pat or (isinstance(pat, (list, tuple)) and n in pat)):
        rec.append("raised")
        if _G.fault.get("__exc__") == "badstr":
            raise BadStr(site)
        raise Boom(site)


def fbval(site, obj=None):
    cb(site, obj)
    try:
        return _G.fbval(site, _G.cnt[site])
    except BaseException as e:  # noqa
        _G.harness_exc = e
        raise


def install():
    """Harness-side wrapper around NotifierDelay.wait (the original still runs)."""
    if _G.installed:
        return
    core.bind_repo()
    import hal.simulation as hs
    import wpilib
    from robotpy_ext.misc.precise_delay import NotifierDelay

    orig = NotifierDelay.wait

    def wait(self):
        _G.evq.put(("wait", wpilib.RobotController.getFPGATime()))
        return orig(self)

    NotifierDelay.wait = wait
    builtins._verif_cb = cb
    builtins._verif_fbval = fbval
    hs.pauseTiming()
    # wpilib's DriverStation singleton creates its /FMSInfo publishers once per process and never re-creates
    # them.  After NetworkTableInstance._reset() those handles are stale, and because handle numbers start
    # again from zero they would alias publishers of the *next* robot (observed: FMSControlData written into
    # /robot/<feedback key>).  Allocate the singleton's handles far above anything one robot life uses, so
    # that after a reset they refer to nothing.
    import ntcore

    inst = ntcore.NetworkTableInstance.getDefault()
    dummies = [inst.getIntegerTopic(f"/verif-dummy/{i}").publish() for i in range(4000)]
    wpilib.DriverStation.refreshData()
    wpilib.DriverStation.isDSAttached()
    for d in dummies:
        d.close()
    del dummies
    gc.collect()
    inst._reset()
    _G.installed = True


# ------------------------------------------------------------------------------------------ layouts


def comp(name, on="derived", hooks=True, fb=True, inherit=None, extra_src="", fb_ann="int", fb_name="get_x", fb_key=None, same_class_as=None):
    return dict(name=name, on=on, hooks=hooks, fb=fb, inherit=inherit, extra_src=extra_src, fb_ann=fb_ann, fb_name=fb_name, fb_key=fb_key, same_class_as=same_class_as)


def _cls_of(c):
    return "K_" + (c.get("same_class_as") or c["name"])


def layout(name, comps, auto=True, teleop_in_auto=False, p_us=20000, robot_base=False, robot_fb=True, robot_extra="", modes=("plain", "other")):
    return dict(name=name, comps=comps, auto=auto, teleop_in_auto=teleop_in_auto, p_us=p_us, robot_base=robot_base, robot_fb=robot_fb, robot_extra=robot_extra, modes=list(modes))


def comp_order(lay):
    """Declaration order as MagicRobot sees it: base-class annotations first."""
    base = [c["name"] for c in lay["comps"] if c["on"] == "base"] if lay["robot_base"] else []
    rest = [c["name"] for c in lay["comps"] if not (lay["robot_base"] and c["on"] == "base")]
    return base + rest


def _comp_src(c):
    nm = c["name"]
    cls = "K_" + nm
    parent = ("K_" + c["inherit"]) if c["inherit"] else ""
    if c.get("same_class_as"):
        return ""  # a second instance of another component's class: no class of its own
    # the site name is the component's *instance* name (MagicRobot names the injected logger after it), so two
    # components of the very same class are told apart
    src = f"class {cls}({parent}):\n    SITE = property(lambda self: self.logger.name)\n"
    if not c["inherit"]:
        if c["hooks"]:
            src += "    def setup(self):\n        _cb(self.SITE + '.setup', self)\n"
            src += "    def on_enable(self):\n        _cb(self.SITE + '.on_enable', self)\n"
            src += "    def on_disable(self):\n        _cb(self.SITE + '.on_disable', self)\n"
        src += "    def execute(self):\n        _cb(self.SITE + '.execute', self)\n"
        if c["fb"]:
            ann = f" -> {c['fb_ann']}" if c["fb_ann"] else ""
            deco = f"@feedback(key={c['fb_key']!r})" if c["fb_key"] else "@feedback"
            src += f"    {deco}\n    def {c['fb_name']}(self){ann}:\n        return _fbval(self.SITE + '.fb', self)\n"
    src += c["extra_src"]
    return src + "\n"


ROBOT_CBS = ["teleopInit", "teleopPeriodic", "disabledInit", "disabledPeriodic", "autonomousInit", "testInit", "testPeriodic", "robotPeriodic"]


def robot_source(lay):
    src = ""
    for c in lay["comps"]:
        src += _comp_src(c)
    body = "    def createObjects(self):\n        _cb('createObjects', self)\n"
    for n in ROBOT_CBS:
        body += f"    def {n}(self):\n        _cb({n!r}, self)\n"
    if lay["robot_fb"]:
        body += "    @feedback(key='rk')\n    def robot_fb(self) -> float:\n        return _fbval('robot.fb', self)\n"
    body += lay["robot_extra"]
    P = lay["p_us"] / 1e6
    cfg = f"    control_loop_wait_time = {P!r}\n    use_teleop_in_autonomous = {bool(lay['teleop_in_auto'])}\n"
    if lay["robot_base"]:
        src += "class RBase(magicbot.MagicRobot):\n"
        for c in lay["comps"]:
            if c["on"] == "base":
                src += f"    {c['name']}: {_cls_of(c)}\n"
        src += body + "\nclass R(RBase):\n" + cfg
        for c in lay["comps"]:
            if c["on"] != "base":
                src += f"    {c['name']}: {_cls_of(c)}\n"
    else:
        src += "class R(magicbot.MagicRobot):\n" + cfg
        for c in lay["comps"]:
            src += f"    {c['name']}: {_cls_of(c)}\n"
        src += body
    return src


MODE_SRC = '''import builtins
class {cls}:
    MODE_NAME = {name!r}
    DEFAULT = {default}
{extra}
    def setup(self):
        builtins._verif_cb({site!r} + '.modesetup', self)
    def on_enable(self):
        builtins._verif_cb({site!r} + '.on_enable', self)
    def on_iteration(self, tm):
        builtins._verif_cb({site!r} + '.on_iteration', self, tm)
    def on_disable(self):
        builtins._verif_cb({site!r} + '.on_disable', self)
'''


def write_auto_package(lay, mode_extra=""):
    """Writes <worker dir>/apk_<hash>/autonomous and returns the directory to put on sys.path."""
    key = core.stable_hash([lay["modes"], mode_extra])
    root = os.path.join(os.getcwd(), f"apk_{key}")
    pkg = os.path.join(root, "autonomous")
    if not os.path.isdir(pkg):
        os.makedirs(pkg)
        open(os.path.join(pkg, "__init__.py"), "w").close()
        for i, m in enumerate(lay["modes"]):
            site = "mode" if i == 0 else m
            with open(os.path.join(pkg, f"m_{m}.py"), "w") as f:
                f.write(MODE_SRC.format(cls=m.capitalize(), name=m, default=(i == 0), site=site, extra=mode_extra if i == 0 else ""))
        importlib.invalidate_caches()
    return root


def _purge_auto_modules():
    for k in [k for k in sys.modules if k == "autonomous" or k.startswith("autonomous.")]:
        del sys.modules[k]


# ------------------------------------------------------------------------------------------ one robot life


class Life:
    __slots__ = ("log", "steps", "end", "alarms", "nt", "robot_modes", "boot_ok", "hang", "startup_exc", "components", "extra")


def set_ds(mode, fms, attached=True):
    from wpilib.simulation import DriverStationSim as DS

    en, au, te = DS_WORD[mode]
    DS.setDsAttached(attached)
    DS.setFmsAttached(fms)
    DS.setEnabled(en)
    DS.setAutonomous(au)
    DS.setTest(te)
    DS.notifyNewData()


def run_life(lay, history, fms=False, faults=None, hooks=(), fbvalue=None, observe=None, end=True, mode_extra="", step_plan=None):
    """history: string over 'datx'; history[0] is the driver-station word at boot.  One loop iteration per
    later element.  fms: bool, or one bool per history element (the FMS attaches / detaches between iterations).  Returns a Life.  observe(robot, step_index) is called by the harness between steps."""
    import hal.simulation as hs
    import magicbot
    import ntcore
    import wpilib
    import wpilib.simulation as ws
    from wpilib.simulation import DriverStationSim as DS

    if _G.poisoned or _G.nudged_lives >= 3:
        raise core.WorkerPoisoned(None)
    install()
    _G.lives += 1
    _G.harness_exc = None
    _G.log = []
    _G.cnt = collections.Counter()
    _G.fault = dict(faults or {})
    _G.hooks = list(hooks)
    _G.fbval = fbvalue or (lambda site, n: n)
    while not _G.evq.empty():
        _G.evq.get_nowait()
    DS.resetData()
    DS.setSendError(False)
    fms_at = (lambda k: bool(fms[min(k, len(fms) - 1)])) if isinstance(fms, (list, tuple)) else (lambda k: fms)
    set_ds(history[0], fms_at(0))
    # local-only NetworkTables: RobotBase's StartServer() becomes a no-op, so parallel workers do not fight
    # over the NT ports (the same thing pyfrc does for robot tests)
    ntcore.NetworkTableInstance.getDefault().startLocal()

    pkgroot = None
    _purge_auto_modules()
    if lay["auto"]:
        pkgroot = write_auto_package(lay, mode_extra)
        sys.path.insert(0, pkgroot)
    g = dict(magicbot=magicbot, feedback=magicbot.feedback, tunable=magicbot.tunable, will_reset_to=magicbot.will_reset_to, _cb=cb, _fbval=fbval, wpilib=wpilib)
    life = Life()
    life.steps = []
    life.alarms = []
    life.nt = []
    life.hang = False
    life.startup_exc = None
    life.extra = {}
    life.end = None
    robot = None
    th = None
    try:
        exec(robot_source(lay), g)
        robot = g["R"]()

        def body():
            try:
                robot.startCompetition()
                _G.evq.put(("exit", None))
            except BaseException as e:  # noqa
                _G.evq.put(("exc", e))

        th = threading.Thread(target=body, daemon=True)
        th.start()

        def next_event():
            # The HAL simulation wakes notifier waiters without holding their mutex, so a clock step that lands
            # between the waiter's time check and its condition wait can be missed.  Re-issuing the wake-up
            # (a zero-length step: the clock does not move) is harmless and closes that window.
            waited = 0.0
            nudges = 0
            while waited < BATON_TIMEOUT:
                try:
                    return _G.evq.get(timeout=0.2)
                except queue.Empty:
                    waited += 0.2
                    hs.stepTimingAsync(0)
                    _G.pokes += 1
                    if waited >= NUDGE_AFTER + nudges * 2.0 and nudges < 8:
                        # The robot thread is silent for many seconds: maybe it sleeps until a later instant than the
                        # alarm the harness saw.  Move the clock on (to the programmed alarm if there is one in the
                        # future, else by one period).  A healthy loop never gets here; for a broken one this turns a
                        # dead wait into an observable timing difference.
                        nowt = wpilib.RobotController.getFPGATime()
                        al = hs.getNextNotifierTimeout()
                        hs.stepTimingAsync(al - nowt if al > nowt else lay["p_us"])
                        nudges += 1
                        life.extra["nudges"] = life.extra.get("nudges", 0) + 1
            return ("hang", None)

        inst = ntcore.NetworkTableInstance.getDefault()
        ev = next_event()
        k = 0
        life.steps.append(dict(mode=EFFECTIVE[history[0]], raw=history[0], start=0, ev=ev[0], t=ev[1] if ev[0] == "wait" else None))
        while ev[0] == "wait":
            alarm = hs.getNextNotifierTimeout()
            life.alarms.append(alarm)
            life.steps[-1]["end"] = len(_G.log)
            life.steps[-1]["alarm"] = alarm
            life.steps[-1]["nt_mode"] = inst.getEntry("/robot/mode").getString("<unset>")
            if observe is not None:
                life.steps[-1]["obs"] = observe(robot, k, inst)
            k += 1
            if k >= len(history):
                break
            m = history[k]
            set_ds(m, fms_at(k))
            now = wpilib.RobotController.getFPGATime()
            life.steps.append(dict(mode=EFFECTIVE[m], raw=m, start=len(_G.log)))
            extra = step_plan[k] if step_plan else 0
            if alarm > now:
                hs.stepTimingAsync(alarm - now + extra)
            elif extra:
                hs.stepTimingAsync(extra)
            ev = next_event()
            life.steps[-1]["ev"] = ev[0]
            life.steps[-1]["t"] = ev[1] if ev[0] == "wait" else None
        if ev[0] == "wait" and end:
            robot.endCompetition()
            alarm = hs.getNextNotifierTimeout()
            now = wpilib.RobotController.getFPGATime()
            life.steps.append(dict(mode="end", start=len(_G.log)))
            hs.stepTimingAsync(max(alarm - now, 1))
            ev = next_event()
            life.steps[-1]["ev"] = ev[0]
        life.steps[-1]["end"] = len(_G.log)
        life.end = ev
        if ev[0] == "hang":
            life.hang = True
            _G.poisoned = True
            import faulthandler

            with open(f"/tmp/verif-hang-{os.getpid()}.txt", "w") as f:
                f.write(f"layout {lay['name']} history {history} faults {faults} lives {_G.lives} steps {life.steps[-3:]} log-tail {[r[0] for r in _G.log[-8:]]}\n")
                faulthandler.dump_traceback(file=f, all_threads=True)
        else:
            th.join(BATON_TIMEOUT)
            if th.is_alive():
                life.hang = True
                _G.poisoned = True
    except core.HarnessError:
        raise
    except Exception as e:  # noqa  (raised while the robot class was defined / constructed in this thread)
        life.startup_exc = e
        life.end = ("exc", e)
        if not life.steps:
            life.steps.append(dict(mode=EFFECTIVE[history[0]], raw=history[0], start=0, end=len(_G.log), ev="exc"))
    finally:
        life.log = _G.log
        life.components = comp_order(lay)
        if pkgroot is not None:
            try:
                sys.path.remove(pkgroot)
            except ValueError:
                pass
        _purge_auto_modules()
        _G.hooks = []
        _G.fault = {}
        robot = None
        g.clear()
        if not _G.poisoned:
            reset_world()
    if _G.harness_exc is not None:
        e, _G.harness_exc = _G.harness_exc, None
        raise core.HarnessError(f"harness code raised inside a robot callback: {e!r}")
    if life.extra.get("nudges"):
        _G.nudged_lives += 1
    if life.hang:
        # The robot thread neither reached its next NotifierDelay.wait() nor ended although the harness re-issued the
        # wake-up every 0.2 s for BATON_TIMEOUT seconds and then moved the clock on by several more periods: the
        # control loop has stopped iterating.  The stuck thread makes this process unusable, so the violation travels
        # in the exception and the remaining work of this process is skipped (recorded as a cap).
        mode = life.steps[-1]["mode"] if life.steps else "?"
        tail = [r[0] for r in life.log[-6:]]
        raise core.WorkerPoisoned(dict(
            sig=f"loop-stopped-iterating:{mode}",
            msg=f"layout {lay['name']}, history {history!r}, faults {faults}: the robot thread stopped responding in step {len(life.steps) - 1} (mode {mode}); last callbacks {tail}",
            replay=dict(engine="robot", layout=lay, history=history, fms=fms, faults=faults or {}, hang=True),
        ))
    return life


def reset_world():
    import hal.simulation as hs
    import ntcore
    import wpilib.simulation as ws
    from wpilib.simulation import DriverStationSim as DS

    ws._simulation._resetWpilibSimulationData()
    ws._simulation._resetMotorSafety()
    gc.collect()
    ntcore.NetworkTableInstance.getDefault()._reset()
    hs.resetGlobalHandles()
    hs.resetAllSimData()
    DS.resetData()
    hs.pauseTiming()


# ------------------------------------------------------------------------------------------ loop model (C05)


def loop_model(lay, history, end=True):
    """Expected callback sites: list of steps, each a list of site names.  Feedback getters appear as the
    set element ('fb', frozenset(sites)) because their relative order is unspecified."""
    comps = comp_order(lay)
    byname = {c["name"]: c for c in lay["comps"]}
    for c in lay["comps"]:
        if c.get("same_class_as"):
            o = byname[c["same_class_as"]]
            c = dict(c)
    hooked = [c["name"] for c in lay["comps"] if (byname[c.get("same_class_as") or c["name"]]["hooks"]) or c["inherit"]]
    hooked = [n for n in comps if n in hooked]
    fbs = [c["name"] + ".fb" for c in lay["comps"] if (byname[c.get("same_class_as") or c["name"]]["fb"] or c["inherit"])]
    if lay["robot_fb"]:
        fbs.append("robot.fb")
    fb = [("fb", frozenset(fbs))] if fbs else []
    auto = lay["auto"]

    def iteration(m):
        if m == "d":
            return ["disabledPeriodic"] + fb + ["robotPeriodic"]
        if m == "t":
            return ["teleopPeriodic"] + [c + ".execute" for c in comps] + fb + ["robotPeriodic"]
        if m == "a":
            out = ["mode.on_iteration"] if auto else []
            if lay["teleop_in_auto"]:
                out.append("teleopPeriodic")
            return out + [c + ".execute" for c in comps] + fb + ["robotPeriodic"]
        return ["testPeriodic"] + fb + ["robotPeriodic"]

    def leave(m):
        if m == "t":
            return [c + ".on_disable" for c in hooked]
        if m == "a":
            return (["mode.on_disable"] if auto else []) + [c + ".on_disable" for c in hooked]
        return []

    def enter(m):
        if m == "d":
            return [c + ".on_disable" for c in hooked] + ["disabledInit"]
        if m == "t":
            return [c + ".on_enable" for c in hooked] + ["teleopInit"]
        if m == "a":
            return [c + ".on_enable" for c in hooked] + ["autonomousInit"] + (["mode.on_enable"] if auto else [])
        return ["testInit"]

    steps = []
    history = [EFFECTIVE[m] for m in history]
    cur = history[0]
    msetup = [("modesetup", frozenset(("mode" if i == 0 else m) + ".modesetup" for i, m in enumerate(lay["modes"])))] if auto else []
    steps.append(["createObjects"] + [c + ".setup" for c in hooked] + msetup + enter(cur) + iteration(cur))
    for m in history[1:]:
        s = []
        if m != cur:
            s += leave(cur) + enter(m)
            cur = m
        steps.append(s + iteration(m))
    if end:
        steps.append(leave(cur))
    return steps


def norm_sites(log_slice):
    """Observed sites of a step with the feedback block folded into one unordered element."""
    out = []
    blk = []
    msb = []
    for rec in log_slice:
        s = rec[0]
        if s.endswith(".modesetup"):
            msb.append(s)
            continue
        if msb:
            out.append(("modesetup", frozenset(msb)))
            msb = []
        if s.endswith(".fb"):
            blk.append(s)
        else:
            if blk:
                out.append(("fb", frozenset(blk)))
                if len(set(blk)) != len(blk):
                    out.append(("fb-duplicate", tuple(sorted(blk))))
                blk = []
            out.append(s)
    if msb:
        out.append(("modesetup", frozenset(msb)))
    if blk:
        out.append(("fb", frozenset(blk)))
        if len(set(blk)) != len(blk):
            out.append(("fb-duplicate", tuple(sorted(blk))))
    return out


def _unused():
    pass


def fmt_sites(x):
    return [s if isinstance(s, str) else (s[0] + "{" + ",".join(sorted(s[1])) + "}") for s in x]


def histories(depth, alphabet=MODES, boot=MODES):
    """All driver-station histories: boot word + up to depth-1 further words (every prefix is itself a
    history because shutdown can happen after any step)."""
    import itertools

    out = []
    for k in range(1, depth + 1):
        for h in itertools.product(alphabet, repeat=k):
            if h[0] in boot:
                out.append("".join(h))
    return out


def long_histories(depth, pairs=("da", "dt", "at", "dx", "tx")):
    """Every history up to `depth` over each two-word alphabet: long alternations / repeated periods that the full
    four-word enumeration cannot reach."""
    import itertools

    out = []
    for ab in pairs:
        for k in range(1, depth + 1):
            for h in itertools.product(ab, repeat=k):
                out.append("".join(h))
    return sorted(set(out))


def visit_history(res, lay, h, extra=()):
    """Abstract loop states visited by one history: (layout, previous mode, mode, iterations in this mode capped at 3)."""
    prev = None
    n = 0
    for m in h:
        e = EFFECTIVE[m]
        n = n + 1 if e == prev else 1
        res.visit(lay["name"], prev, m, min(n, 3), *extra)
        prev = e
