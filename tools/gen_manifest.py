#!/usr/bin/env python3
"""Regenerates /verif/MANIFEST.json from the table below (run after adding a check)."""
import json
import os

VERIF = os.path.dirname(os.path.dirname(os.path.abspath(__file__)))

TRUST = (
    "Trusted: CPython, the wpilib/hal/ntcore simulation back end (paused clock, notifier blocking, DriverStationSim, "
    "in-process NetworkTables), the reference model / clause monitors in /verif/mc (cross-checked against each other and "
    "by the seeded-change self test). Bounds are stated in the evidence file; nothing beyond them is claimed."
)

# id -> (engine, technique, level text, design ref)
SM_TECH = "bounded exhaustive exploration of the real StateMachine: prefix-replay DFS over all operation/clock/in-state-action sequences, explicit-state BFS with canonical state merging (control alphabet to a fixed depth; clock/engage/done/duration-edit alphabet until the state space closes, also next to a busy sibling instance), lock-step reference model and independent clause monitors"
SM_TEXT = (
    "Every operation sequence up to the stated depth (and every canonical state up to the BFS depth) of every generated machine shape is "
    "executed on the real class under a harness-owned exact clock and compared step by step with a reference model and with clause monitors "
    "transcribed from the property; the result is a coverage statement over the bounded alphabet, not a sample."
)
ROBOT_TECH = "exhaustive enumeration of driver-station histories (boot word + one word per loop iteration + shutdown; all histories over the four modes to a fixed depth, the disabled words that keep a mode bit set, and long histories over every two- and three-word alphabet) for generated robot layouts, each executed through the real MagicRobot.startCompetition() in a baton-serialized thread under a harness-owned clock / driver station / NetworkTables"
ROBOT_TEXT = (
    "All mode histories up to the stated depth are executed on the real control loop (unique interleaving: the harness only moves the clock "
    "while the robot thread waits in NotifierDelay.wait), so the claim is a coverage statement over layouts x histories x fault plans within the bounds in the evidence file."
)
CHECKS = {
    "C01": ("sm", SM_TECH, SM_TEXT, "4 (sm engine, C01)"),
    "C02": ("sm", SM_TECH, SM_TEXT, "4 (sm engine, C02)"),
    "C03": ("sm", SM_TECH + "; all 16 ordered parameter subsets on each decorator", SM_TEXT, "4 (sm engine, C03)"),
    "C04": ("sm", SM_TECH, SM_TEXT, "4 (sm engine, C04)"),
    "C12": ("smdef", "exhaustive product enumeration of StateMachine class definitions (state variants x inheritance layouts incl. overriding, mix-ins, diamonds; every StateMachine attribute name; every parameter kind/name/position) against an independent definition model built on Python's MRO", "Every definition in the finite families is exec'd with the real decorators and instantiated; the expected error set / state table comes from an independent model.", "4 (smdef engine)"),
    "C13": ("sm", SM_TECH + " (AutonomousStateMachine shapes, bracketed on_enable/on_iteration/on_disable histories)", SM_TEXT, "4 (sm engine, C13)"),
    "C05": ("robot", ROBOT_TECH + "; oracle = loop model (callback order, iteration instants on the P grid, /robot/mode)", ROBOT_TEXT, "4 (robot engine, C05)"),
    "C06": ("robot", ROBOT_TECH + "; oracle = lifecycle monitors on the callback log", ROBOT_TEXT, "4 (robot engine, C06)"),
    "C07": ("robot", ROBOT_TECH + " x exhaustive fault plans (every callback site x first/second/every call, all site pairs); differential oracle against the fault-free run", ROBOT_TEXT, "4 (robot engine, C07)"),
    "C08": ("inject", "exhaustive product enumeration of robot/component/autonomous-mode definitions, each built as a real MagicRobot and run through robotInit(), against an independent injection model (identity of the injected object or MagicInjectError)", "The definition family is a finite product of feature domains; every point is executed, so the claim is complete coverage of that family.", "4 (inject engine)"),
    "C09": ("nt", "exhaustive product enumeration of tunable definitions/owners/subtables/writeDefault/pre-existing values, plus closed explicit-state exploration of python-side and NetworkTables-side read/write interleavings on two instances of one class against a dict model", "The definition family is enumerated completely; the read/write behaviour is a finite machine (value of each instance's topic) whose every state x operation is executed on the real tunables with independent NT publishers/subscribers.", "4 (nt engine)"),
    "C10": ("robot", ROBOT_TECH + " x all 16 assignment scripts x single fault plans; reset model replayed over the observed callback order", ROBOT_TEXT, "4 (robot engine, C10)"),
    "C11": ("robot", ROBOT_TECH + " x fault plans on getters; independent NetworkTables read after every iteration", ROBOT_TEXT, "4 (robot engine, C11)"),
    "C14": ("selector", "exhaustive enumeration of generated autonomous packages on disk x FMS flag against a set-level discovery model; prefix-replay DFS over all start/periodic/disable histories x selection sources; run() periods through the real MagicRobot loop", "The package family (modules x classes x MODE_NAME/DISABLED/DEFAULT/raising constructor/failing import) is enumerated completely and loaded by the real selector; every operation history up to the stated length is executed and its exact callback log compared.", "4 (selector engine)"),
    "C15": ("sa", "bounded exhaustive exploration (prefix-replay DFS) of generated StatefulAutonomous subclasses over all on_enable / on_iteration(tm) / dashboard-edit sequences and in-state actions, lock-step reference model", "Every operation sequence up to the stated depth, over several autonomous periods on the same instance, is executed on the real class and compared with a reference model whose periods are independent by construction.", "4 (sa engine)"),
    "C16": ("notifier", "exhaustive enumeration of loop-body-duration schedules driving the real NotifierDelay (real HAL notifier) in a baton-controlled worker thread; oracle on the programmed alarm (read from the HAL) and the FPGA time at which wait() returns", "Every schedule of the stated length over six characteristic body durations and four periods is executed; the claim is coverage of that schedule space.", "4 (notifier engine)"),
    "C17": ("inputs", "exhaustive enumeration of the finite input domain (all 4096 ADC codes, a 1/65536 V grid, boundary doubles) and of short setDistance/external-voltage histories on the simulation helpers", "The hardware-producible input set is finite and enumerated completely; other doubles are represented by boundary values and grids (stated limit).", "4 (inputs engine, C17)"),
    "C18": ("inputs", "exhaustive enumeration of unit triples (built-in and generated user-defined chains) x value alphabet, sensor readings on grids, and all short calibrate/voltage histories of the pressure sensor", "Finite families enumerated completely against independently computed ratios / formulas.", "4 (inputs engine, C18)"),
    "C19": ("ctl", "explicit-state BFS with replay over sample / record / watchdog operation sequences on the real objects (closed where the clamped state space is finite), exact models or clause monitors, flat sequences as cross-check", "Toggle, ButtonDebouncer and PeriodicFilter state spaces close under the operation alphabet, giving all reachable states; SimpleWatchdog and debounced Toggle are explored to the stated depth.", "4 (ctl engine)"),
    "C20": (
        "crc",
        "explicit-state BFS over the closed 128-state checksum register through the real crc7(), exhaustive error-pattern and short-message enumeration, a length sweep, and exhaustive call histories on a re-loaded module (hidden state in the function)",
        "The table-driven implementation is a finite machine (128 register values x 256 input bytes). All 32768 transitions are "
        "executed on the real function and compared with the bit-serial CRC; with the base case this is a complete induction over "
        "the message length. Error detection / linearity are decided by enumerating every pattern in the stated classes.",
        "4 (crc engine)",
    ),
}

NOT_YET = "check not built yet in this revision of /verif (planned: bounded exhaustive exploration, see DESIGN.md section 4)"


def main():
    props = [json.loads(l) for l in open(os.path.join(VERIF, "properties.jsonl"))]
    checks, na = [], []
    for p in props:
        pid = p["id"]
        if pid in CHECKS:
            engine, technique, text, ref = CHECKS[pid]
            checks.append(
                dict(
                    property_id=pid,
                    quick_cmd=f"./check {pid} --tier quick",
                    thorough_cmd=f"./check {pid} --tier thorough",
                    evidence_file=f"/verif/evidence/{pid}.json",
                    replay_cmd_template=f"./check {pid} --replay {{path}}",
                    engine=engine,
                    level_claimed=dict(category="model_checking", text=text, design_ref=f"DESIGN.md section {ref}"),
                    level_note=TRUST,
                    technique=technique,
                )
            )
        else:
            na.append(dict(property_id=pid, reason=NOT_YET))
    engines = {}
    for pid, (engine, *_rest) in CHECKS.items():
        engines.setdefault(engine, []).append(pid)
    man = dict(
        version=1,
        setup_cmd="/venv/bin/python -m compileall -q /verif/mc && /venv/bin/python -c 'import wpilib, hal, ntcore' && /venv/bin/python /verif/mc/selftest_core.py",
        hooks=dict(
            guard="ROBOTPY_WPILIB_UTILITIES_VERIF",
            enable="no source hooks are needed: the checks observe the library through its public API, generated subclasses and harness-side wrappers; the guard name is reserved",
            baseline_off_cmd="cd /repo && /venv/bin/python -m pytest -ra -q -p no:cacheprovider --timeout=900 --continue-on-collection-errors",
            source_commits=[],
            add_only=True,
        ),
        engines=[
            dict(name=k, path=f"/verif/mc", serves_properties=sorted(v), kind_free_text="bounded exhaustive exploration of the real Python implementation (hand-written explorer)")
            for k, v in sorted(engines.items())
        ],
        checks=checks,
        notes="Exit codes of ./check: 0 held, 1 VIOLATION (replay file written under /verif/replays), 2 harness error. VERIF_SEED only permutes work order.",
        not_applicable=na,
    )
    with open(os.path.join(VERIF, "MANIFEST.json"), "w") as f:
        json.dump(man, f, indent=1)
        f.write("\n")
    print(f"claimed {len(checks)}, not claimed {len(na)}")


if __name__ == "__main__":
    main()
