#!/bin/bash
# Re-evaluates every kept seeded change against the current checks (quick tier) and refreshes meta.json + seeded/README.md.
# Usage: tools/seedall.sh [pattern]     e.g. tools/seedall.sh 'C0[1-4]-*'
cd "$(dirname "$0")/.."
pat=${1:-*}
for d in seeded/$pat/; do
  id=$(basename $d)
  [ -f $d/patch.diff ] || continue
  prop=$(python3 -c "import json;print(json.load(open('$d/meta.json'))['property'])")
  echo "=== $id ($prop)"
  timeout 3000 python3 tools/seedtest.py $d --prop $prop --checks $prop --keep $id 2>&1 | grep -E "^check|PATCH|suite with|demo with"
done
python3 tools/seedtable.py
