#!/bin/bash
# tools/runall.sh [tier] [ids...] : runs every check (or the listed ones, e.g. 07 13) once, prints one line per check
tier=${1:-quick}
shift
ids=${@:-01 02 03 04 05 06 07 08 09 10 11 12 13 14 15 16 17 18 19 20}
cd "$(dirname "$0")/.."
for i in $ids; do
  s=$(date +%s)
  out=$(timeout ${TMO:-3600} ./check C$i --tier $tier 2>/dev/null)
  rc=$?
  echo "C$i rc=$rc $(( $(date +%s) - s ))s $(echo "$out" | grep -E '^\[C' | cut -c1-200)"
  echo "$out" | grep -E "^VIOLATION|^KNOWN|^HARNESS" | head -5
done
