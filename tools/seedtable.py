#!/usr/bin/env python3
"""Fill the 'needs' field of every seeded/<id>/meta.json from its notes.md and regenerate seeded/README.md."""
import json
import os
import re

VERIF = os.path.dirname(os.path.dirname(os.path.abspath(__file__)))
S = os.path.join(VERIF, "seeded")


def needs_from_notes(path):
    if not os.path.exists(path):
        return ""
    txt = open(path).read()
    paras = [p.strip() for p in re.split(r"\n\s*\n", txt) if p.strip()]
    pick = [p for p in paras if re.search(r"manifest|needs|trigger|only when|only shows|shows only", p, re.I)]
    out = " ".join((pick or paras)[:2])
    out = re.sub(r"\s+", " ", out)
    return out[:700]


rows = []
for d in sorted(os.listdir(S)):
    mp = os.path.join(S, d, "meta.json")
    if not os.path.exists(mp):
        continue
    m = json.load(open(mp))
    if not m.get("needs"):
        m["needs"] = needs_from_notes(os.path.join(S, d, "notes.md"))
    m["breaks_property"] = m.get("property")
    json.dump(m, open(mp, "w"), indent=1, sort_keys=True)
    det = ", ".join(f"{c} ({'quick' if r.get('tier', 'quick') == 'quick' else r['tier']})" for c, r in sorted(m["checks"].items()) if r["exit"] == 1) or "**none**"
    missed = ", ".join(c for c, r in sorted(m["checks"].items()) if r["exit"] == 0)
    ok = all(m.get(k) for k in ("suite_passes_with_change", "demo_fails_with_change", "demo_passes_without_change"))
    rows.append((d, m.get("property"), det, missed, "yes" if ok else "INCOMPLETE", m["needs"][:160].replace("|", "/")))

with open(os.path.join(S, "README.md"), "w") as f:
    f.write("# Seeded property-breaking changes\n\nEach directory: `patch.diff` (against /repo), `demo_test.py`, `notes.md` (the author's description), `meta.json` (what was run here).\n")
    f.write("None of these is ever committed to /repo. `confirmed` = the patch applies, the 43 tests pass with it, the demonstration fails with it and passes without it.\n\n")
    f.write("| change | property | detected by (exit 1) | run but silent | confirmed | needs |\n|---|---|---|---|---|---|\n")
    for r in rows:
        f.write("| " + " | ".join(str(x) for x in r) + " |\n")
print(len(rows), "seeded changes;", sum(1 for r in rows if r[2] == "**none**"), "undetected")
