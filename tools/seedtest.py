#!/usr/bin/env python3
"""Evaluate one seeded change against the checks.

  tools/seedtest.py <dir with patch.diff + demo_test.py> --prop C16 [--checks C16,C05] [--tier quick] [--keep <seeded id>]

Works on scratch copies of /repo's working tree under /tmp (removed afterwards); /repo itself is never touched.
1. the patch applies, 2. the repository's own suite still passes with it, 3. the demonstration fails with it and
passes without it, 4. each named check run with VERIF_REPO=<patched copy> (expected: exit 1 + VIOLATION).
With --keep the change is stored as /verif/seeded/<id>/ (patch.diff, demo, notes, meta.json).
"""
import argparse
import json
import os
import shutil
import subprocess
import sys
import tempfile
import time

VERIF = os.path.dirname(os.path.dirname(os.path.abspath(__file__)))
PY = "/venv/bin/python"


def sh(cmd, cwd=None, env=None, timeout=3600):
    e = dict(os.environ)
    if env:
        e.update(env)
    try:
        p = subprocess.run(cmd, shell=True, cwd=cwd, env=e, stdout=subprocess.PIPE, stderr=subprocess.STDOUT, text=True, timeout=timeout)
    except subprocess.TimeoutExpired as ex:
        return 124, (ex.stdout or "") if isinstance(ex.stdout, str) else ""
    return p.returncode, p.stdout


def copy_repo(dst):
    rc, out = sh(f"rsync -a --exclude .git --exclude __pycache__ --exclude networktables.json /repo/ {dst}/")
    assert rc == 0, out


def main():
    ap = argparse.ArgumentParser()
    ap.add_argument("dir")
    ap.add_argument("--prop", required=True)
    ap.add_argument("--checks", default=None)
    ap.add_argument("--tier", default="quick")
    ap.add_argument("--keep", default=None)
    ap.add_argument("--skip-suite", action="store_true")
    a = ap.parse_args()
    checks = (a.checks or a.prop).split(",")
    d = os.path.abspath(a.dir)
    patch = os.path.join(d, "patch.diff")
    demo = os.path.join(d, "demo_test.py")
    scratch = tempfile.mkdtemp(prefix="seedrun-")
    meta = dict(property=a.prop, source_dir=d, checks={}, ran=[])
    try:
        mut = os.path.join(scratch, "mut")
        clean = os.path.join(scratch, "clean")
        copy_repo(mut)
        copy_repo(clean)
        rc, out = sh(f"git apply --whitespace=nowarn {patch}", cwd=mut)
        meta["patch_applies"] = rc == 0
        if rc != 0:
            rc, out = sh(f"patch -p1 < {patch}", cwd=mut)
            meta["patch_applies"] = rc == 0
            if rc != 0:
                print("PATCH DOES NOT APPLY\n" + out)
                return 2
        if not a.skip_suite:
            rc, out = sh(f"{PY} -m pytest -q -p no:cacheprovider", cwd=mut)
            meta["suite_with_change"] = out.strip().splitlines()[-1] if out.strip() else ""
            meta["suite_passes_with_change"] = rc == 0 and "43 passed" in out
            meta["ran"].append("cd <patched copy> && /venv/bin/python -m pytest -q -p no:cacheprovider")
            print("suite with change:", meta["suite_with_change"])
            if os.path.exists(demo):
                rc1, out1 = sh(f"{PY} -m pytest -q -p no:cacheprovider {demo}", cwd=mut)
                rc0, out0 = sh(f"{PY} -m pytest -q -p no:cacheprovider {demo}", cwd=clean)
                meta["demo_fails_with_change"] = rc1 != 0
                meta["demo_passes_without_change"] = rc0 == 0
                meta["demo_with_change"] = out1.strip().splitlines()[-1] if out1.strip() else ""
                meta["demo_without_change"] = out0.strip().splitlines()[-1] if out0.strip() else ""
                meta["ran"].append("cd <patched copy> && /venv/bin/python -m pytest -q -p no:cacheprovider demo_test.py  (and the same in an unpatched copy)")
                print("demo with change   :", meta["demo_with_change"])
                print("demo without change:", meta["demo_without_change"])
        for c in checks:
            t0 = time.time()
            rc, out = sh(f"./check {c} --tier {a.tier}", cwd=VERIF, env=dict(VERIF_REPO=mut), timeout=1500)
            viol = [l for l in out.splitlines() if l.startswith("VIOLATION")]
            sigs = [l.strip() for l in out.splitlines() if l.strip().startswith("signature:")]
            meta["checks"][c] = dict(exit=rc, violations=len(viol), signatures=sigs[:8], wall_s=round(time.time() - t0, 1), tier=a.tier)
            meta["ran"].append(f"VERIF_REPO=<patched copy> ./check {c} --tier {a.tier}")
            print(f"check {c}: exit={rc} violations={len(viol)} {sigs[:4]} ({time.time()-t0:.0f}s)")
            if rc not in (0, 1):
                print(out[-3000:])
        # evidence / replay files written by these runs describe the mutant, not /repo: remove the replays
        for f in os.listdir(os.path.join(VERIF, "replays")):
            if f.endswith(".json"):
                os.remove(os.path.join(VERIF, "replays", f))
        meta["detected_by"] = [c for c, r in meta["checks"].items() if r["exit"] == 1]
        if a.keep:
            dst = os.path.join(VERIF, "seeded", a.keep)
            os.makedirs(dst, exist_ok=True)
            for f in ("patch.diff", "demo_test.py", "notes.md"):
                if os.path.exists(os.path.join(d, f)) and os.path.realpath(d) != os.path.realpath(dst):
                    shutil.copy(os.path.join(d, f), os.path.join(dst, f))
            old = {}
            mp = os.path.join(dst, "meta.json")
            if os.path.exists(mp):
                old = json.load(open(mp))
                for k in ("needs",):
                    if k in old:
                        meta[k] = old[k]
                oc = old.get("checks", {})
                oc.update(meta["checks"])
                meta["checks"] = oc
                meta["detected_by"] = sorted(c for c, r in oc.items() if r["exit"] == 1)
                for k in ("suite_passes_with_change", "demo_fails_with_change", "demo_passes_without_change", "suite_with_change", "demo_with_change", "demo_without_change"):
                    if k not in meta and k in old:
                        meta[k] = old[k]
            meta.pop("source_dir", None)
            json.dump(meta, open(mp, "w"), indent=1, sort_keys=True)
        return 0
    finally:
        shutil.rmtree(scratch, ignore_errors=True)


if __name__ == "__main__":
    sys.exit(main())
