import builtins
class Plain:
    MODE_NAME = 'plain'
    DEFAULT = True

    def on_enable(self):
        builtins._verif_cb('mode' + '.on_enable', self)
    def on_iteration(self, tm):
        builtins._verif_cb('mode' + '.on_iteration', self, tm)
    def on_disable(self):
        builtins._verif_cb('mode' + '.on_disable', self)
