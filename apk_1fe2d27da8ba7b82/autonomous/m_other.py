import builtins
class Other:
    MODE_NAME = 'other'
    DEFAULT = False

    def on_enable(self):
        builtins._verif_cb('other' + '.on_enable', self)
    def on_iteration(self, tm):
        builtins._verif_cb('other' + '.on_iteration', self, tm)
    def on_disable(self):
        builtins._verif_cb('other' + '.on_disable', self)
